"""C14: tree ownership -- destroy notifiers are called exactly for the key and value that leave the tree at that
call (replace, remove with 0/1/2 children, clear, free), never for stored ones, never twice; without notifiers the
user objects are never touched."""
import vf
import trees_common as tc
from trees_common import step, hist
import C12 as _c12

KF = "C14_two_child_remove"
KF_MATCH = r"notifier during (the operation|this call)|destroyed exactly once over|compared after its destroy notifier"
META = {
 "assumptions": _c12.META["assumptions"] + [
  "keys and values are integer tokens: 'never touched / never freed without notifiers' is decided by CBMC's pointer checks (any dereference or free of a token is a violation)",
  "notifier accounting: per (rank, identity) counters per phase (the operation, the following p_tree_free)",
  "notifier configuration {both, key only, value only, none} of p_tree_new_full is a solver variable inside every query (NEWMODE 5, one reachability witness per configuration); "
  "exactly-once is asserted per configured notifier, 'never called' for the unconfigured side"],
 "outside": ["trees higher than H before the operation", "histories longer than 3 (quick) / 4 (thorough) calls", "notifiers that re-enter the tree API"],
 "units_included_by_harness": tc.INCLUDED,
}
MANIFEST = {
 "level_text": "Bounded model checking of the real ptree*.c with recording destroy notifiers: from every valid tree of height <= H, for every key position and every neighbourhood of the removed node "
               "(leaf, one child, two children with every predecessor depth), the solver decides that the notifiers run exactly for the pair that leaves the tree at this call, that the following "
               "p_tree_free destroys every remaining pair exactly once, and that no key is passed to the comparator after its notifier ran. Tests only count notifier calls; this identifies WHICH object "
               "is destroyed at WHICH call, which is how the two-children defect was found.",
 "level_note": "Trusted: CBMC 6.11 + minisat; allocator ledger; token encoding of user objects. Bounds: H=3 quick, H=4 thorough (operation-time accounting; free-after only at H=3 and in the clear queries); histories 3/4 calls.",
 "technique": "CBMC inductive step with recording notifiers (per-object, per-call accounting) + from-empty API histories",
 "design_ref": "DESIGN.md §3 C12-C14, §7 #1",
}
PROP = "C14"
X = ["FREE_AFTER"]
NM = 5      # p_tree_new_full with a SYMBOLIC notifier configuration: {both, key only, value only, none} decided inside every query


def finding_open():
    return ("KF_OPEN_" + KF) in vf.open_finding_defs(PROP)


def queries(tier):
    is_open = finding_open()
    qs, h = [], 3
    for tt in (0, 1, 2):
        # p_tree_free after the operation (exactly-once over operation + free) is run after every removal of a stored key and after
        # a third of the inserts / replaces; for the others it follows from 'post-state = valid tree with the reference content'
        # (checked in every query) + 'clear/free from every valid tree destroys exactly the stored pairs' (clear queries)
        for p in tc.insert_new_cases(h):
            qs.append(step(PROP, tt, h, 0, p, 0, newmode=NM, extra=X if p % 3 == 0 else ()))
        for p in tc.hit_cases(h):
            # replace: the stored key and value objects are notified at this call, whatever the new pair is -- new value in {fresh, the very
            # object stored under this key, an object stored under another key}, new key in {fresh, the stored key object itself} (symbolic);
            # one notification per insertion of an object, checked over the operation + p_tree_free
            qs.append(step(PROP, tt, h, 0, p, 1, newmode=NM, extra=X + ["REPLACE_SYM"]))
            for rc in tc.remcases(h, p):
                if tc.two_child(rc):
                    # the class of the recorded finding: while it is open only the demonstration queries below run it
                    if is_open:
                        continue
                # finding fixed: ordinary queries (no kf label: vf.classify would otherwise file their failures under the finding)
                qs.append(step(PROP, tt, h, 1, p, 1, newmode=NM, remcase=rc, extra=X))
        for p in (1, 2, 6, 11, 15):
            qs.append(step(PROP, tt, h, 1, p, 0, newmode=NM, extra=X))           # absent key: no notifier
        qs.append(step(PROP, tt, h, 4, newmode=NM, extra=["SYM_MAG"]))            # clear + free: everything exactly once
        qs.append(step(PROP, tt, h, 3, newmode=NM, extra=["SYM_MAG"]))            # foreach: no notifier
        # no notifiers given: nothing called, user objects never touched (pointer checks)
        qs.append(step(PROP, tt, h, 0, 1, 1, newmode=0, extra=X))
        qs.append(step(PROP, tt, h, 0, 5, 1, newmode=1))
        for p, rc in ((1, 0), (1, 1), (1, 3), (1, 4), (2, 2), (3, 3), (6, 0)):
            qs.append(step(PROP, tt, h, 1, p, 1, newmode=(p + rc) % 2, remcase=rc, extra=X))
        qs.append(step(PROP, tt, h, 4, newmode=tt % 2, extra=["SYM_MAG"]))
    if is_open:
        # demonstration of the open finding: removal of a node with two children (one query -> one KNOWN-FINDING line; the same
        # failure exists in ptree-bst.c and ptree-avl.c: run `--only two_pred` with the finding marked fixed, or replay/native/C14_two_child_remove.c)
        qs.append(step(PROP, 1, h, 1, 2, 1, newmode=NM, remcase=3, extra=X, kf=KF, kf_match=KF_MATCH, tag="_kfdemo"))
    for tt in (0, 1, 2):
        # the NULL pointer as user key / value (ptree.h allows it): the leaving pair is (NULL, NULL) in one removal per neighbourhood
        # kind and in two replaces (removal by the NULL key itself); the inserted pair is (NULL, NULL); clear / foreach over a tree
        # holding a NULL key and a NULL value
        for p, rc in ((4, 0), (2, 1), (3, 2), (1, 3), (1, 4), (1, 0)):
            qs.append(step(PROP, tt, h, 1, p, 1, newmode=NM, remcase=rc, extra=["NULLTOK=1"] + (X if tt == 0 or p == 1 else [])))
        for p in (1, 5):
            qs.append(step(PROP, tt, h, 0, p, 1, newmode=NM, extra=["NULLTOK=1", "REPLACE_SYM"] + X))
        for p in (1, 9):
            qs.append(step(PROP, tt, h, 0, p, 0, newmode=NM, extra=["NULLTOK=2"] + X))
        qs.append(step(PROP, tt, h, 4, newmode=NM, extra=["SYM_MAG", "NULLTOK=3"]))
        qs.append(step(PROP, tt, h, 3, newmode=NM, extra=["SYM_MAG", "NULLTOK=3"]))
        # the node allocation of an insert fails: no notifier runs (the caller keeps the pair), tree unchanged
        for p in (1, 3, 4, 10, 15):
            qs.append(step(PROP, tt, h, 0, p, 0, newmode=NM, extra=["ALLOC_FAIL"]))
    qs += [hist(PROP, 0, 3, NM, extra=["NULLTOK=1"]), hist(PROP, 1, 3, NM, extra=["NULLTOK=1"])]
    qs += tc.avl_hist(PROP, NM, tier, extra=["NULLTOK=2"])
    if tier == "thorough":
        # H=4: notifier accounting of the operation itself; the p_tree_free pass over a 16-node symbolic tree is left to the clear_h4 queries
        qs += tc.thorough_h4(PROP, (), newmode=NM, skip_two_child=is_open, replace_extra=["REPLACE_SYM"])
        qs.append(step(PROP, 0, 4, 4, newmode=NM, extra=["SYM_MAG"], timeout=1800))
        qs.append(step(PROP, 1, 4, 4, newmode=NM, extra=["SYM_MAG"], timeout=1800))
        qs += [hist(PROP, 0, 4, NM, extra=["NULLTOK=1"], timeout=2400), hist(PROP, 1, 4, NM, timeout=3000)]
    return qs
