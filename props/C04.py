from vf import Q
AM = "models/atomics_model.h"
BASE = ["models/verif.c", "models/libc_stub.c"]
def model(m):
    """units, includes, models, defs for one atomic model"""
    if m == "c11":
        return ["src/patomic-c11.c"], [AM], list(BASE), ["MODEL_C11", "VMA_REQUIRE_SEQ_CST"]
    if m == "sync":
        return ["src/patomic-sync.c"], [AM], list(BASE), ["MODEL_SYNC"]
    return (["src/patomic-sim.c", "src/pmutex-posix.c", "src/pmem.c"], [AM, "models/C04_redir_mutex.h"],
            BASE + ["models/C04_mutex.c"], ["MODEL_SIM"])
GETSET = ["p_atomic_int_get", "p_atomic_int_set", "p_atomic_pointer_get", "p_atomic_pointer_set"]
def litmus(m, lit, wide, mm=None, hb=False):
    units, incs, models, defs = model(m)
    defs = defs + ["LIT_" + lit] + (["WIDE"] if wide else []) + (["VMA_HB"] if hb else [])
    return Q("lit_%s_%s_%s%s%s" % (m, lit.lower(), "ptr" if wide else "int", "_hb" if hb else "", "_" + mm if mm else ""),
             "harness/C04_litmus.c", units=units, includes=incs, models=models, defs=defs, threads=True,
             flags=(["--mm", mm] if mm else []), funcs=GETSET,
             bounds={"threads": 2, "ops_per_thread": 2, "memory_model": mm or "sc" + ("+C11 ghost happens-before" if hb else "")},
             timeout=600)
ALL16 = ["p_atomic_int_get", "p_atomic_int_set", "p_atomic_int_inc", "p_atomic_int_dec_and_test", "p_atomic_int_compare_and_exchange",
         "p_atomic_int_add", "p_atomic_int_and", "p_atomic_int_or", "p_atomic_int_xor", "p_atomic_pointer_get", "p_atomic_pointer_set",
         "p_atomic_pointer_compare_and_exchange", "p_atomic_pointer_add", "p_atomic_pointer_and", "p_atomic_pointer_or", "p_atomic_pointer_xor"]
def seq(m):
    units, incs, models, defs = model(m)
    defs = defs + ["C04_SEQ"] + ([] if m == "sim" else ["VMA_PRE_HOOK=c04_pre", "VMA_POST_HOOK=c04_post"])
    return Q("seq_interf_%s" % m, "harness/C04_seq.c", units=units, includes=incs, models=models, defs=defs, funcs=ALL16,
             bounds={"operands": "all 32-bit / 64-bit values", "other_threads": "any number (arbitrary interference outside the indivisible access)",
                     "calls": "one call of each of the 16 functions"}, timeout=600)
def linear_extensions(nt, nops):
    """all interleavings of nt threads x nops ops respecting program order, as lists of thread ids"""
    out = []
    def rec(pos, cur):
        if len(cur) == nt * nops:
            out.append(list(cur)); return
        for t in range(nt):
            if pos[t] < nops:
                pos[t] += 1; cur.append(t); rec(pos, cur); cur.pop(); pos[t] -= 1
    rec([0] * nt, [])
    return out
def ctab(rows):
    return "{" + ",".join("{" + ",".join(str(x) for x in r) + "}" for r in rows) + "}"
FN = {"ADD": "add", "AND": "and", "OR": "or", "XOR": "xor", "INC": "inc", "DEC": "dec_and_test", "CAS": "compare_and_exchange", "SET": "set", "GET": "get"}
def conc(m, name, kinds, wide=False, extra=(), timeout=900, solver=None):
    """kinds: per thread list of op kinds, e.g. [["ADD"],["ADD"],["ADD"]]"""
    units, incs, models, defs = model(m)
    nt, nops = len(kinds), len(kinds[0])
    sch = linear_extensions(nt, nops)
    orders = []
    for o in sch:
        pos = [0] * nt; steps = []
        for t in o:
            steps.append("S(%d,%d)" % (t, pos[t])); pos[t] += 1
        orders.append("ORD(" + " ".join(steps) + ")")
    kdefs = ["K%d%d=K_%s" % (t, i, kinds[t][i] if t < nt and i < nops else "NONE") for t in range(3) for i in range(2)]
    defs = defs + ["NT=%d" % nt, "NOPS=%d" % nops, "ORDERS=" + " ".join(orders)] + kdefs + list(extra) + (["WIDE"] if wide else [])
    n = nt * nops
    return Q("conc_%s_%s_%s" % (m, name, "ptr" if wide else "int"), "harness/C04_conc.c", units=units, includes=incs, models=models,
             defs=defs, threads=True, funcs=sorted({"p_atomic_%s_%s" % ("pointer" if wide else "int", FN[k]) for r in kinds for k in r}),
             unwind=5,   # every loop of the harness has a compile-time bound (the units have no loops)
             bounds={"threads": nt, "ops_per_thread": nops, "operands": "all values", "interleavings": "all (CBMC partial-order encoding, SC)",
                     "sequential_orders_compared": len(sch), "operand_range": "0..255" if "SMALL_OPERANDS" in extra else "full width"},
             timeout=timeout, solver=solver)
def queries(tier):
    qs = [seq("c11"), seq("sync"), seq("sim")]
    for m in ("c11", "sync", "sim"):
        for wide in (False, True):
            ptr_cas_ok = wide and m == "sync"   # c11/sim pointer get/set/CAS write a ppointer-typed object: CBMC threads abort (covered by seq_interf)
            qs.append(conc(m, "ticket3", [["ADD"]] * 3, wide, ["CHECK_TICKET"], solver="cadical"))
            qs.append(conc(m, "bits3", [["AND"], ["OR"], ["XOR"]], wide))
            if not wide:
                qs.append(conc(m, "dec3", [["DEC"]] * 3, wide, ["CHECK_DEC"]))
                qs.append(conc(m, "cas2", [["CAS"]] * 2, wide, ["CHECK_CAS", "SAME_EXPECTED"]))
                qs.append(conc(m, "inc_set_get", [["INC"], ["SET"], ["GET"]], wide))
            elif ptr_cas_ok:
                qs.append(conc(m, "cas2", [["CAS"]] * 2, wide, ["CHECK_CAS", "SAME_EXPECTED"]))
            if tier != "quick":
                qs.append(conc(m, "ticket2x2", [["ADD", "ADD"]] * 2, wide, ["CHECK_TICKET"], solver="cadical"))
                qs.append(conc(m, "xor_or_2x2", [["XOR", "OR"], ["AND", "XOR"]], wide))
                if not wide:
                    qs.append(conc(m, "dec2x2", [["DEC", "DEC"]] * 2, wide, ["CHECK_DEC"]))
                    qs.append(conc(m, "cas3", [["CAS"]] * 3, wide, ["CHECK_CAS", "SAME_EXPECTED"]))
                    qs.append(conc(m, "cas_add_2x2", [["CAS", "ADD"], ["ADD", "CAS"]], wide))
                    qs.append(conc(m, "inc_dec_get_2x2", [["INC", "DEC"], ["DEC", "GET"]], wide))
                    qs.append(conc(m, "ticket3x2_8bit", [["ADD", "ADD"]] * 3, wide, ["CHECK_TICKET", "SMALL_OPERANDS"], timeout=2400, solver="cadical"))
                    qs.append(conc(m, "dec3x2", [["DEC", "DEC"]] * 3, wide, ["CHECK_DEC"], timeout=2400, solver="cadical"))
    for wide in (False, True):
        qs.append(litmus("c11", "MP", wide, hb=True))
        qs.append(litmus("c11", "SB", wide, mm="tso"))
        qs.append(litmus("c11", "MP", wide, mm="tso"))
        for lit in ("SB", "SB_GET", "SB_SET", "MP"):
            qs.append(litmus("sync", lit, wide, mm="tso"))
    qs.append(litmus("sim", "MP", False, hb=True))
    qs.append(litmus("sim", "SB", False))
    return qs
META = {
 "assumptions": [
  "GCC __atomic_* / __sync_* builtins = explicit models of models/atomics_model.h (force-included): one indivisible section performing the C operation on the word, "
  "wrapping arithmetic, strong compare-exchange with real failure write-back; CBMC's own builtin models are unusable (measured) and not used",
  "hardware indivisibility of lock-prefixed instructions and the x86-64 mapping of memory orders (every RMW, SEQ_CST store and SEQ_CST fence/__sync_synchronize "
  "carries a full fence, loads and weaker stores are plain accesses) are trusted; `--mm tso` = CBMC's x86-TSO axiomatisation",
  "c11: the C11 synchronisation rules are a ghost happens-before tracker (release/acquire/seq_cst, release sequences, fences) inside the builtin models; "
  "every builtin call is additionally asserted to carry __ATOMIC_SEQ_CST",
  "sim: real patomic-sim.c + real pmutex-posix.c over a one-instance pthread mutex model (models/C04_mutex.c: lock blocks until free, unlock by owner, "
  "acquire/release edges); p_malloc0 through the real pmem.c default vtable on CBMC malloc",
  "interference (seq_interf_*): other threads may overwrite the word with any value at every instant at which the calling thread is not inside its "
  "indivisible builtin access / critical section; this over-approximates any number of threads doing anything to the word",
  "spin-free code: the units contain no loops; thread joins in the harness are `assume(done)`",
  "signed-overflow reports inside patomic-sim.c (`oldval + val` on pint/pssize) are recorded as UB notes, not violations: the property speaks about values"],
 "outside": ["more than 3 threads / more than 2 operations per thread in the exhaustive-interleaving queries (the interference queries cover any number of threads "
             "but one operation of the observed thread at a time)", "non-x86 weak memory models for the sync model", "pthread mutex internals (futex)",
             "p_atomic_pointer_{get,set,compare_and_exchange} of c11/sim inside CBMC threads (they write a ppointer-typed object, which CBMC's concurrency "
             "encoding rejects; covered for all operands and under interference by seq_interf_*, sync variant also in threads)",
             "patomic-decc.c / patomic-win.c (do not compile here)"],
}
MANIFEST = {
 "level_text": "Bounded model checking of the real patomic-c11.c / patomic-sync.c / patomic-sim.c: (1) every one of the 16 functions for ALL 32/64-bit operand values under "
               "arbitrary interference by other threads outside its single indivisible access (any number of threads); (2) ALL interleavings of 2-3 threads x 1-2 operations "
               "with symbolic operands compared against every sequential order (ticket, dec-and-test, CAS race, bit operations, set/get); (3) barrier litmus tests: C11 ghost "
               "happens-before + SEQ_CST assertion (c11), SB/MP under CBMC's x86-TSO (sync), mutex edges (sim). Right level because atomicity and ordering defects only show "
               "under specific interleavings/reorderings that tests cannot force, while the code is tiny enough to decide exhaustively.",
 "level_note": "Trusted: CBMC 6.11 partial-order concurrency encoding (sc/tso) + SAT back ends (minisat, cadical); builtin models of models/atomics_model.h; one-mutex pthread model; "
               "hardware atomicity. Bounds: <=3 threads x <=2 ops for full interleavings; litmus tests with 2 threads.",
 "technique": "CBMC sequential (interference) + native-thread symbolic execution, SC and TSO, ghost happens-before",
 "design_ref": "DESIGN.md §3 C04",
}
