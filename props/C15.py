from vf import Q
ALLOC = ["models/alloc.c", "models/verif.c", "models/libc_stub.c"]
UB = ("overflow", "undefined-shift", "conversion", "pointer_arithmetic")
CALC = "__CPROVER_file_local_phashtable_c_pp_hash_table_calc_hash"
FIND = "__CPROVER_file_local_phashtable_c_pp_hash_table_find_node"
META = {
 "assumptions": [
  "allocator = ledger model over CBMC malloc installed via p_mem_set_vtable; allocation never fails here (C18 covers failure)",
  "printf (P_ERROR) has an empty body",
  "history queries: pp_hash_table_calc_hash is replaced by a consistent uninterpreted function (same pointer -> same bucket < size); "
  "the real function is decided separately for all 2^64 pointer values at the real modulus 101 (hashfn_* queries)",
  "history queries with list-producing sweeps use the PLIBSYS_VERIF hook to shrink the bucket array (5 buckets); bucket logic is modulus-generic"],
 "outside": ["histories longer than the stated number of operations", "chains longer than the history length",
             "lists longer than LMAX"],
}
MANIFEST = {
 "level_text": "Bounded model checking of the real phashtable.c/plist.c: every history of N operations with arbitrary 64-bit key/value bit patterns (incl. all keys in one bucket) is compared against an association-list reference by the SAT solver; the hash arithmetic is decided separately for all 2^64 pointer values with signed-overflow checks on. Right level because the bugs live in rare key patterns and chain positions that sampling misses, while the state is small enough to decide exhaustively within the bound.",
 "level_note": "Trusted: CBMC 6.11 and its SAT back end; allocator ledger model; hash replaced by a consistent uninterpreted function in history queries (real function checked separately); bucket array shrunk to 5 via the PLIBSYS_VERIF hook for sweep queries. Bounds: histories <=3 (quick) / <=4 (thorough) operations, lists <=3/5 elements.",
 "technique": "CBMC bounded symbolic execution of real units vs. reference model; UF abstraction of the hash kernel verified separately",
 "design_ref": "DESIGN.md §3 C15",
}
def uw(n, size):
    c = n + 2
    return {"harness.0": n + 1, "harness.1": n + 1, "ref_find.0": n + 1, "count_in_list.0": c + 1, FIND + ".0": c, CALC + ".0": n + 4,
            "p_hash_table_remove.0": c, "p_list_append.0": c, "p_list_free.0": c + 1,
            "p_hash_table_keys.0": c, "p_hash_table_keys.1": size + 1, "p_hash_table_values.0": c, "p_hash_table_values.1": size + 1,
            "p_hash_table_lookup_by_value.0": c, "p_hash_table_lookup_by_value.1": size + 1,
            "p_hash_table_free.0": c, "p_hash_table_free.1": size + 1}
HFUNCS = ["p_hash_table_new", "p_hash_table_insert", "p_hash_table_remove", "p_hash_table_lookup", "p_hash_table_keys",
          "p_hash_table_values", "p_hash_table_lookup_by_value", "p_hash_table_free", "pp_hash_table_find_node", "p_list_append", "p_list_free"]
def hist(n, size, sweep, collide):
    defs = ["NOPS=%d" % n, "WITNESS_FULL", "UFHASH", "PLIBSYS_VERIF", "PLIBSYS_VERIF_HASH_TABLE_SIZE=%d" % size]
    if sweep: defs.append("SWEEP")
    if collide: defs.append("COLLIDE")
    return Q("ht_hist%d_size%d%s%s" % (n, size, "_sweep" if sweep else "", "_collide" if collide else ""), "harness/C15_hashtable.c",
             units=["src/phashtable.c", "src/plist.c", "src/pmem.c"], models=ALLOC, defs=defs, export_local=True, remove_bodies=[CALC],
             unwindset=uw(n, size), ub_scope=UB, flags=["--pointer-overflow-check"], funcs=HFUNCS,
             bounds={"ops": n, "buckets": size, "keys_values": "any 64-bit pattern", "sweep": sweep, "all_keys_one_bucket": collide}, timeout=2400)
def queries(tier):
    qs = []
    # the real hash arithmetic, all pointers, real modulus
    qs.append(Q("hashfn_all_pointers_mod101", "harness/C15_hashfn.c", units=["src/phashtable.c"], models=["models/verif.c"],
                defs=["MODULO=101"], export_local=True, ub_scope=UB, funcs=["pp_hash_table_calc_hash"],
                bounds={"pointer": "all 2^64 values"}, timeout=600))
    qs.append(Q("hashfn_kf_demo", "harness/C15_hashfn.c", units=["src/phashtable.c"], models=["models/verif.c"],
                defs=["MODULO=101", "KF_DEMO"], export_local=True, ub_scope=UB, funcs=["pp_hash_table_calc_hash"], kf="C15_hash_overflow", kf_match=r"calc_hash\.overflow.*signed \+",
                bounds={"pointer": "low word > INT_MAX-37"}, timeout=600))
    lm = 3 if tier == "quick" else 5
    qs.append(Q("list_len%d" % lm, "harness/C15_list.c", units=["src/plist.c", "src/pmem.c"], models=ALLOC, defs=["LMAX=%d" % lm],
                unwind=lm + 2, ub_scope=UB, flags=["--pointer-overflow-check"],
                funcs=["p_list_append", "p_list_prepend", "p_list_remove", "p_list_reverse", "p_list_last", "p_list_length", "p_list_foreach", "p_list_free"],
                bounds={"list_length": lm, "data": "any 64-bit pattern"}, timeout=1200))
    if tier == "quick":
        qs += [hist(3, 5, False, False), hist(3, 5, False, True), hist(2, 5, True, False), hist(2, 5, True, True), hist(1, 101, False, False)]
    else:
        qs += [hist(4, 5, False, False), hist(4, 5, False, True), hist(3, 5, True, False), hist(3, 5, True, True),
               hist(2, 101, False, False), hist(2, 101, False, True), hist(3, 3, True, True)]
    return qs
