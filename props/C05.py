from vf import Q
PROXY = "__CPROVER_file_local_puthread_c_pp_uthread_proxy"
CLEANUP = "__CPROVER_file_local_puthread_c_pp_uthread_cleanup"
EMUL = ["TE_HOOKS", "TE_SPINLOCK_C11", "TE_START_ROUTINE=" + PROXY, "TE_DTOR_A=" + CLEANUP, "TE_DTOR_B=c05_tls_dtor"]
UNITS = ["src/puthread.c", "src/puthread-posix.c", "src/patomic-c11.c", "src/pspinlock-c11.c", "src/pmem.c", "src/pstring.c"]
MODELS = ["models/alloc.c", "models/verif.c", "models/libc_stub.c", "models/thread_emul.c"]
META = {"assumptions": [], "outside": []}
MANIFEST = {}
def life(nops, tops, depth, extra=(), name=None, timeout=1500):
    return Q(name or "life_ops%d_tops%d_depth%d" % (nops, tops, depth), "harness/C05_life.c", units=UNITS, models=MODELS,
             defs=["NOPS=%d" % nops, "TOPS=%d" % tops, "TE_DEPTH=%d" % depth] + EMUL + list(extra),
             includes=["models/redir_thread.h"], export_local=True, remove_bodies=["p_spinlock_lock"],
             unwindset={"strlen.0": 4}, timeout=timeout, object_bits=11, bounds={"main_ops": nops, "thread_ops": tops, "preemption_depth": depth})
def race(two, depth, extra=(), timeout=1500):
    return Q("keyrace_%dthr_d%d%s" % (2 if two else 1, depth, "".join("_" + e.lower() for e in extra)), "harness/C05_keyrace.c", units=UNITS, models=MODELS,
             defs=["TE_DEPTH=%d" % depth] + (["TWO"] if two else []) + EMUL + list(extra),
             includes=["models/redir_thread.h"], export_local=True, remove_bodies=["p_spinlock_lock"],
             unwindset={"strlen.0": 4}, timeout=timeout, object_bits=11,
             bounds={"threads": 2 if two else 1, "preemption_depth": depth})
def fam(f, nops, tops, depth, pos_b=99, ja=1, jb=1, prewarm=True, named=False, timeout=1500):
    defs = ["POS_B=%d" % pos_b, "JOINABLE_A=%d" % ja, "JOINABLE_B=%d" % jb]
    if f != "ALL": defs.append("FAM_" + f)
    if prewarm: defs.append("PREWARM")
    if named: defs.append("NAMED")
    name = "%s_%s%s_ops%d_tops%d_d%d%s%s" % (f.lower(), "JD"[1 - ja], ("" if pos_b >= nops else "JD"[1 - jb] + "@%d" % pos_b), nops, tops, depth,
                                           "" if prewarm else "_lazykeys", "_named" if named else "")
    q = life(nops, tops, depth, defs, name=name, timeout=timeout)
    q.bounds.update({"threads": 1 if pos_b >= nops else 2, "family": f, "keys_prewarmed": prewarm})
    return q
def queries(tier):
    import os
    cfg = os.environ.get("C05_CFG")
    if cfg:
        f = cfg.split(",")[0]; n, t, d, pb, ja, jb = [int(x) for x in cfg.split(",")[1:]]
        return [fam(f, n, t, d, pb, ja, jb)]
    qs = []
    if os.environ.get("C05_EXP"):
        return [race(True, 2, timeout=3400), race(True, 2, ["RACE_LIB"], timeout=3400), fam("LIFE", 2, 2, 2, pos_b=0, timeout=3400),
                fam("LIFE", 3, 2, 1, named=True), fam("LIFE", 2, 2, 1, prewarm=False), fam("ALL", 3, 2, 1), fam("TLS", 2, 2, 1, pos_b=0),
                fam("LIFE", 3, 2, 2, timeout=3400)]
    if tier == "quick":
        qs += [fam("LIFE", 4, 2, 1, ja=1), fam("LIFE", 4, 2, 1, ja=0)]
        qs += [fam("LIFE", 3, 2, 1, pos_b=1, ja=ja, jb=jb) for ja in (0, 1) for jb in (0, 1)]
        qs += [fam("TLS", 3, 2, 1, ja=1), fam("TLS", 3, 2, 1, ja=0)]
        qs += [race(False, 1), race(True, 1), race(True, 2), race(False, 1, ["RACE_LIB"]), race(True, 1, ["RACE_LIB"]), race(True, 2, ["RACE_LIB"])]
    return qs
