from vf import Q
PROXY = "__CPROVER_file_local_puthread_c_pp_uthread_proxy"
CLEANUP = "__CPROVER_file_local_puthread_c_pp_uthread_cleanup"
EMUL = ["TE_HOOKS", "TE_SPINLOCK_C11", "TE_START_ROUTINE=" + PROXY, "TE_DTOR_A=" + CLEANUP, "TE_DTOR_B=c05_tls_dtor"]
UNITS = ["src/puthread.c", "src/puthread-posix.c", "src/patomic-c11.c", "src/pspinlock-c11.c", "src/pmem.c", "src/pstring.c"]
MODELS = ["models/alloc.c", "models/verif.c", "models/libc_stub.c", "models/thread_emul.c"]
META = {
 "assumptions": [
  "threads = sequential nested-atomic emulation (models/thread_emul.c): pthread_create registers a pending thread; at every model entry that touches "
  "shared state (atomic builtins, spinlock acquisition, pthread_create/join/key_create/key_delete/get/setspecific, allocator free) a symbolic choice may run a "
  "pending thread's whole start routine to completion, nested up to preemption_depth; pthread_join runs a pending target; thread end runs the TLS "
  "destructors (<=2 rounds, asserted sufficient); a thread that would block on a lock whose holder is suspended is an infeasible path",
  "__atomic builtins of patomic-c11.c / pspinlock-c11.c = preemption point + plain C operation (models/thread_atomics.h); memory ordering is C04's subject",
  "p_spinlock_lock (c11) replaced by its acquisition contract (preemption point, lock free, take it); the retry loop itself is C01's subject; "
  "p_spinlock_new/unlock/trylock/free are the real code",
  "pthread_exit cannot unwind a sequential stack: the harness thread function returns right after p_uthread_exit and the model asserts that no model "
  "entry is executed by that thread in between",
  "allocator = ledger model over CBMC malloc installed through p_mem_set_vtable; never fails here (C18); free is a preemption point, malloc is not (fresh block is private)",
  "skeleton concrete per query (which threads exist, where B is created, joinable/detached, named): keeps handle pointers concrete for CBMC; operation kinds, "
  "their order after the creates, targets, exit codes, TLS values and all scheduling choices are solver variables",
  "life/tls families run with every TLS key already used once by main (platform keys exist); with existing keys a TLS call only touches the caller's own slot, so "
  "main's TLS calls take a single preemption point in front of them; lazy key creation and its race are decided by the keyrace queries (no pre-use)",
  "printf (P_ERROR/P_WARNING) has an empty body"],
 "outside": ["interleavings in which a preempted thread resumes before its preemptor has finished (A1 B1 A2 B2) and nesting deeper than preemption_depth",
             "weak-memory effects (emulation is sequentially consistent); data races on plain fields are only seen at model-entry granularity",
             "more than 2 created threads; histories longer than the stated number of operations",
             "real pthread behaviour, priorities, stack sizes, p_uthread_set_priority / ideal_count / yield",
             "the first-use race between two CREATED threads nested inside a third thread's operation (depth 2) is attempted in the thorough tier only",
             "leak of the lazily allocated key block by p_uthread_local_free: C20's subject"],
}
MANIFEST = {
 "level_text": "Bounded model checking of the real puthread.c + puthread-posix.c + patomic-c11.c + pspinlock-c11.c under a sequential thread emulation in which the solver chooses, at every shared-state access, whether a pending thread runs there: every history of N main-thread calls (ref/unref/join/current/TLS) x every thread body of M calls (TLS/current/ref/exit code) x every such schedule is compared with a ghost reference-count and TLS model; CBMC's pointer checks decide use-after-free/double free of the handle on the real code. Right level because the failures (unref before start, exit before create returns, destructor twice, lost CAS) are schedule-dependent memory errors that tests hit only by luck, while the state per scenario is small.",
 "level_note": "Trusted: CBMC 6.11 + SAT back end, thread emulation (preemption only at model entries, preemptor runs to completion, depth 1 quick / 2 thorough-small), allocator ledger, spinlock acquisition contract. Bounds: <=2 created threads, 3-4 main calls, 2 calls per thread body (quick).",
 "technique": "CBMC, sequential nested-atomic thread emulation of the real units, ghost reference model",
 "design_ref": "DESIGN.md §3 C05, §1.2",
}
FUNCS = ["p_uthread_init", "p_uthread_create_full", "p_uthread_create", "pp_uthread_proxy", "pp_uthread_cleanup", "p_uthread_exit", "p_uthread_join",
         "p_uthread_current", "p_uthread_ref", "p_uthread_unref", "p_uthread_create_internal", "p_uthread_exit_internal", "p_uthread_wait_internal",
         "p_uthread_free_internal", "p_uthread_set_name_internal", "p_uthread_local_new", "p_uthread_get_local", "p_uthread_set_local",
         "p_uthread_replace_local", "pp_uthread_get_tls_key", "p_atomic_int_inc", "p_atomic_int_dec_and_test", "p_atomic_pointer_get",
         "p_atomic_pointer_compare_and_exchange", "p_spinlock_new", "p_spinlock_unlock", "p_strdup", "p_malloc0", "p_free"]
def life(nops, tops, depth, extra=(), name=None, timeout=1500):
    return Q(name or "life_ops%d_tops%d_depth%d" % (nops, tops, depth), "harness/C05_life.c", units=UNITS, models=MODELS,
             defs=["NOPS=%d" % nops, "TOPS=%d" % tops, "TE_DEPTH=%d" % depth] + EMUL + list(extra),
             includes=["models/redir_thread.h"], export_local=True, remove_bodies=["p_spinlock_lock"],
             unwindset={"strlen.0": 4}, timeout=timeout, object_bits=11, bounds={"main_ops": nops, "thread_ops": tops, "preemption_depth": depth})
def race(two, depth, extra=(), timeout=1500):
    return Q("keyrace_%dthr_d%d%s" % (2 if two else 1, depth, "".join("_" + e.lower() for e in extra)), "harness/C05_keyrace.c", units=UNITS, models=MODELS,
             defs=["TE_DEPTH=%d" % depth] + (["TWO"] if two else []) + EMUL + list(extra),
             includes=["models/redir_thread.h"], export_local=True, remove_bodies=["p_spinlock_lock"],
             unwindset={"strlen.0": 4}, timeout=timeout, object_bits=11, funcs=FUNCS,
             bounds={"threads": 2 if two else 1, "preemption_depth": depth, "raced_key": "library key" if "RACE_LIB" in extra else "user key"})
def keyfree(self_free):
    return Q("keyfree_%s" % ("by_holder" if self_free else "by_other_thread"), "harness/C05_keyfree.c", units=UNITS, models=MODELS,
             defs=["TE_DEPTH=2"] + (["FREE_SELF"] if self_free else []) + EMUL,
             includes=["models/redir_thread.h"], export_local=True, remove_bodies=["p_spinlock_lock"],
             unwindset={"strlen.0": 4}, timeout=900, object_bits=11, funcs=FUNCS + ["p_uthread_local_free", "p_uthread_shutdown"],
             bounds={"threads": 1 if self_free else 2, "order": "store < local_free < thread end (fixed)", "exit_style": "symbolic"})
def shutdownq(joinable):
    return Q("shutdown_in_thread_%s" % ("J" if joinable else "D"), "harness/C05_shutdown.c", units=UNITS, models=MODELS,
             defs=["TE_NT=1", "TE_DEPTH=1", "JOINABLE_T=%d" % joinable] + EMUL,
             includes=["models/redir_thread.h"], export_local=True, remove_bodies=["p_spinlock_lock"],
             unwindset={"strlen.0": 4}, timeout=900, object_bits=11, funcs=FUNCS + ["p_uthread_shutdown", "p_uthread_local_free", "p_spinlock_free"],
             bounds={"threads": 1, "script": "init, create T, T: current [ref unref] shutdown return, [join], unref"})
def fam(f, nops, tops, depth, pos_b=99, ja=1, jb=1, prewarm=True, named=False, timeout=1500):
    defs = ["POS_B=%d" % pos_b, "JOINABLE_A=%d" % ja, "JOINABLE_B=%d" % jb]
    if f != "ALL": defs.append("FAM_" + f)
    if prewarm: defs.append("PREWARM")
    if named: defs.append("NAMED")
    name = "%s_%s%s_ops%d_tops%d_d%d%s%s" % (f.lower(), "JD"[1 - ja], ("" if pos_b >= nops else "JD"[1 - jb] + "@%d" % pos_b), nops, tops, depth,
                                           "" if prewarm else "_lazykeys", "_named" if named else "")
    q = life(nops, tops, depth, defs, name=name, timeout=timeout)
    q.bounds.update({"threads": 1 if pos_b >= nops else 2, "family": f, "keys_prewarmed": prewarm})
    return q
def queries(tier):
    import os
    cfg = os.environ.get("C05_CFG")
    if cfg:
        f = cfg.split(",")[0]; n, t, d, pb, ja, jb = [int(x) for x in cfg.split(",")[1:]]
        return [fam(f, n, t, d, pb, ja, jb)]
    qs = []
    JD = [(1, 1), (1, 0), (0, 1), (0, 0)]
    if tier == "quick":
        # one created thread: handle life cycle, 4 main calls x 2 thread calls, every schedule (depth 1)
        qs += [fam("LIFE", 4, 2, 1, ja=1), fam("LIFE", 4, 2, 1, ja=0), fam("LIFE", 3, 2, 1, ja=1, named=True)]
        # two created threads, B created after the first main call
        qs += [fam("LIFE", 3, 2, 1, pos_b=1, ja=ja, jb=jb) for ja, jb in JD]
        # TLS values / destroy notifier, one and two threads
        qs += [fam("TLS", 3, 2, 1, ja=1), fam("TLS", 3, 2, 1, ja=0), fam("TLS", 2, 1, 1, pos_b=0)]
        # everything mixed
        qs += [fam("ALL", 3, 2, 1, ja=1)]
        # lazy creation of the platform key raced by main and 1 / 2 threads (user key, library key)
        qs += [race(False, 1), race(True, 1), race(False, 1, ["RACE_LIB"]), race(True, 1, ["RACE_LIB"])]
        # reference key freed while a thread still holds a value under it, then the thread ends
        qs += [keyfree(True), keyfree(False), shutdownq(1), shutdownq(0)]
    else:
        qs += [fam("LIFE", 5, 2, 1, ja=1), fam("LIFE", 5, 2, 1, ja=0), fam("LIFE", 4, 2, 1, ja=1, named=True), fam("LIFE", 4, 2, 1, ja=0, named=True)]
        qs += [fam("LIFE", 4, 2, 1, pos_b=pb, ja=ja, jb=jb, timeout=3000) for pb in (0, 1, 2) for ja, jb in JD]
        qs += [fam("TLS", 4, 2, 1, ja=1), fam("TLS", 4, 2, 1, ja=0), fam("TLS", 2, 2, 1, pos_b=0, timeout=3000), fam("TLS", 2, 2, 1, pos_b=0, ja=0, jb=0, timeout=3000),
               fam("TLS", 3, 1, 1, pos_b=1, timeout=3000)]
        qs += [fam("ALL", 4, 2, 1, ja=1, timeout=3000), fam("ALL", 4, 2, 1, ja=0, timeout=3000)]
        # keys created lazily inside the history (no pre-use by main)
        qs += [fam("LIFE", 2, 2, 1, prewarm=False, timeout=3000)]
        # preemption depth 2: B inside A inside main
        qs += [fam("LIFE", 1, 1, 2, pos_b=0, timeout=3000), fam("LIFE", 1, 1, 2, pos_b=0, ja=0, jb=0, timeout=3000)]
        qs += [race(False, 1), race(True, 1), race(False, 1, ["RACE_LIB"]), race(True, 1, ["RACE_LIB"])]
        qs += [keyfree(True), keyfree(False), shutdownq(1), shutdownq(0)]
    return qs
