import sock_common
from sock_common import sq, SOCK_ASSUMPTIONS, open_ids

FUNCS = ["p_socket_new", "p_socket_new_from_fd", "p_socket_bind", "p_socket_listen", "p_socket_connect", "p_socket_check_connect_result",
         "p_socket_accept", "p_socket_send", "p_socket_send_to", "p_socket_receive", "p_socket_receive_from", "p_socket_shutdown",
         "p_socket_close", "p_socket_free", "p_socket_set_blocking", "p_socket_set_timeout", "p_socket_set_keepalive",
         "p_socket_set_listen_backlog", "p_socket_set_buffer_size", "p_socket_io_condition_wait", "p_sys_close", "pp_socket_check",
         "p_socket_get_fd", "p_socket_is_connected", "p_socket_is_closed", "p_socket_get_keepalive", "p_socket_get_blocking",
         "p_socket_get_timeout", "p_socket_get_listen_backlog"]

META = {
    "assumptions": SOCK_ASSUMPTIONS + [
        "model clock: advanced only by poll - by an arbitrary amount <= timeout when interrupted or when the peer acts during the wait, "
        "by exactly the timeout when poll returns 0; only LOWER bounds on waiting time are claimed",
        "reference state machine written from psocket.h; a set_listen_backlog while listening may keep the old or take the new value; "
        "set_keepalive / check_connect_result on a closed socket are outside the property (queries/options, not I/O calls)",
        "every pboolean argument (set_blocking, set_keepalive, bind allow_reuse, shutdown flags) is an arbitrary int of symbolic truth value; "
        "getters are compared by truth value",
        "family, type and protocol are fixed per query (a symbolic socket() argument would make descriptor numbers symbolic)",
    ],
    "outside": ["real-time upper bounds of waits", "address getters on a closed socket", "sequences longer than the stated length",
                "select() and Windows back ends", "close() failing with EIO"],
}
MANIFEST = {
    "level_text": 'Bounded model checking of the real psocket.c/psysclose-unix.c: (1) closed state - from four pre-states, both families and types, every choice of 2 (quick) / 3 (thorough) I/O calls after p_socket_close is decided to fail with NOT_AVAILABLE while the kernel model sees no system call at all, second close and free make no further close(fd); (2) timeouts - one call that cannot proceed, any timeout argument, polls interrupted at symbolic points with the model clock advancing by arbitrary parts of the timeout, a peer that may act during the wait: TIMED_OUT only after >= T on the clock, T=0 polls indefinitely and never times out, non-blocking returns at once with WOULD_BLOCK/IN_PROGRESS and no poll; (3) close-on-exec on every created/accepted descriptor, also for a kernel ignoring SOCK_CLOEXEC; (4) every sequence of 4 (quick) / 6 (thorough) calls from a 13-call alphabet is compared after each call with a reference state machine written from psocket.h (all getters, error codes, kernel-level effects, descriptor closed exactly once). Right level: the state after an arbitrary call sequence is a product of many small flags that tests sample sparsely, and it is small enough for the solver to enumerate completely within the bound.',
    "level_note": 'Trusted: CBMC 6.11 + SAT back end; kernel model with a symbolic monotone clock driven by poll (lower bounds only); reference state machine (ambiguity: backlog set while listening may keep old or take new value); error recorder in place of p_error_set_error_p. Bounds: sequences <= 4/6 calls, <= 2/4 interrupted polls per call, family/type/protocol fixed per query (all combinations enumerated by the runner).',
    "technique": 'CBMC bounded symbolic execution of real psocket.c vs. a reference state machine; socket kernel model with symbolic clock',
    "design_ref": 'DESIGN.md §3 C10',
}

V4, V6 = "AF_INET", "AF_INET6"


def queries(tier):
    sock_common.TIER = tier
    quick = tier == "quick"
    F = 2 if quick else 4
    qs = []
    # closed state: 2 (quick) / 3 arbitrary I/O calls after close, from 4 pre-states
    nc = 2 if quick else 3
    for fam, fn in ((V4, "v4"), (V6, "v6")):
        for st, sn in ((1, "stream"), (0, "dgram")):
            if quick and (fam, st) in ((V6, 0),):
                continue
            qs.append(sq("closed_%s_%s_calls%d" % (sn, fn, nc), "harness/C10_closed.c", defs=["FAMILY=" + fam, "STREAM=%d" % st, "NCALLS=%d" % nc],
                         faults=0, funcs=FUNCS, bounds={"io_calls_after_close": nc, "pre_state": "fresh|bound|listening|connected"}))
    # the same in a process whose descriptors 0.. are free: p_socket_new / accept legitimately get descriptor 0
    qs.append(sq("closed_stream_v4_calls%d_fd0" % nc, "harness/C10_closed.c", defs=["FAMILY=" + V4, "STREAM=1", "NCALLS=%d" % nc, "VS_FD0=0", "VS_ROT=5"],
                 faults=0, funcs=FUNCS, bounds={"io_calls_after_close": nc, "first_descriptor": 0}))
    qs.append(sq("cloexec_stream_v4_protodefault_fd0", "harness/C10_cloexec.c", defs=["FAMILY=" + V4, "STREAM=1", "PROTO_DEFAULT", "VS_FD0=0"],
                 faults=1, funcs=FUNCS, bounds={"faults_per_call": 1, "first_descriptor": 0}))
    qs.append(sq("cloexec_stream_v4_protodefault_accept_gets_fd0", "harness/C10_cloexec.c", defs=["FAMILY=" + V4, "STREAM=1", "PROTO_DEFAULT", "VS_FD0=0", "VS_ROT=4"],
                 faults=1, funcs=FUNCS, bounds={"faults_per_call": 1, "first_descriptor": 0, "slot_rotation": 4}))
    qs.append(sq("seq_dgram_v4_L3_F0_fd0", "harness/C10_seq.c", defs=["FAMILY=" + V4, "STREAM=0", "L=3", "VS_FD0=0"], faults=0, funcs=FUNCS,
                 bounds={"calls": 3, "alphabet": 13, "first_descriptor": 0}))
    # close() interrupted (Linux: descriptor released, -1/EINTR): closed exactly once, no close() on a number that is not open
    kfid = "C10_close_eintr_reclose"
    kfdef = ["KF_OPEN_" + kfid] if kfid in open_ids() else []
    for st, fam, nm in ((1, V4, "stream_v4"), (0, V6, "dgram_v6")):
        qs.append(sq("close_eintr_%s" % nm, "harness/C10_close_eintr.c", defs=["FAMILY=" + fam, "STREAM=%d" % st] + kfdef, faults=0, funcs=FUNCS,
                     bounds={"interrupted_close_per_library_call": 1, "p_socket_close_calls": "0..2"}))
    qs.append(sq("close_eintr_kf_demo", "harness/C10_close_eintr.c", defs=["FAMILY=" + V4, "STREAM=1", "KF_DEMO"], faults=0, funcs=FUNCS, kf=kfid,
                 kf_match=r"descriptor closed twice|descriptor closed exactly once|released by exactly one close",
                 bounds={"interrupted_close_per_library_call": 1, "p_socket_close_calls": "0..2"}))
    # timeouts / non-blocking: one call that cannot proceed
    for op, nm in ((1, "receive"), (2, "send"), (3, "accept"), (4, "connect"), (5, "io_condition_wait"), (6, "receive_from_dgram")):
        qs.append(sq("timeout_%s_F%d" % (nm, F), "harness/C10_timeout.c", defs=["OP=%d" % op], faults=F, funcs=FUNCS,
                     bounds={"library_calls": 1, "interrupted_polls": F, "timeout": "any int (<= 10^6 ms when positive)"}))
    # close-on-exec
    for fam, fn in ((V4, "v4"), (V6, "v6")):
        for st, sn in ((1, "stream"), (0, "dgram")):
            for extra, en in (([], ""), (["NO_SOCK_CLOEXEC"], "_kernel_ignores_SOCK_CLOEXEC")):
                if quick and ((fam == V6) != (en == "")):
                    continue
                for pd, pn in ((["PROTO_DEFAULT"], "protodefault"), ([], "protoexplicit")):
                    if quick and pn == "protoexplicit" and st == 0:
                        continue
                    qs.append(sq("cloexec_%s_%s_%s%s" % (sn, fn, pn, en), "harness/C10_cloexec.c",
                                 defs=["FAMILY=" + fam, "STREAM=%d" % st] + extra + pd, faults=1, funcs=FUNCS, bounds={"faults_per_call": 1}))
    # shutdown with pboolean flags of arbitrary truthy values (+ demonstration of the known finding)
    qs.append(sq("shutdown_flags", "harness/C10_shutdown.c", faults=0, funcs=FUNCS, bounds={"flags": "any int, symbolic truth value"}))
    qs.append(sq("shutdown_flags_kf_demo", "harness/C10_shutdown.c", defs=["KF_DEMO"], faults=0, funcs=FUNCS, kf="C10_shutdown_truthy_flags",
                 bounds={"flags": "any int, symbolic truth value"}))
    # call sequences against the reference state machine
    if quick:
        seqs = [(V4, 1, 4, 0), (V4, 0, 4, 0), (V6, 1, 2, 1), (V6, 0, 3, 1)]
    else:
        seqs = [(V4, 1, 6, 0), (V6, 1, 5, 0), (V4, 0, 6, 0), (V6, 0, 5, 0), (V4, 1, 4, 1), (V6, 0, 4, 1)]
    for fam, st, L, f in seqs:
        qs.append(sq("seq_%s_%s_L%d_F%d" % ("stream" if st else "dgram", "v4" if fam == V4 else "v6", L, f), "harness/C10_seq.c",
                     defs=["FAMILY=" + fam, "STREAM=%d" % st, "L=%d" % L], faults=f, funcs=FUNCS, mem_gb=16,
                     bounds={"calls": L, "alphabet": 13, "faults_per_call": f}))
    return qs
