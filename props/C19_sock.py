import sock_common
from sock_common import sq, SOCK_ASSUMPTIONS

FUNCS = ["p_socket_receive", "p_socket_send", "p_socket_accept", "p_socket_connect", "p_socket_io_condition_wait",
         "p_socket_receive_from", "p_socket_send_to", "p_socket_check_connect_result", "p_error_get_last_net"]
META = {
    "assumptions": SOCK_ASSUMPTIONS + [
        "C19 sockets: the interrupted and the uninterrupted call run on two identical fixtures of one model world; an interrupted "
        "connect() either did nothing or continues asynchronously (then the retry sees EALREADY), as POSIX allows",
        "whether a pending handshake completes is fixed per scenario (same in both runs)"],
    "outside": ["signals interrupting non-syscall code", "SA_RESTART handlers", "more than the stated number of interruptions per call",
                "non-blocking calls (the property is about blocking calls)"],
}
MANIFEST = {
    "level_text": 'Socket part of C19: each blocking socket call is executed twice on identical symbolic fixtures, once with EINTR at a symbolic subset (<=3) of its poll/connect/accept/send/recv invocations and once uninterrupted; the solver decides equal return value, data, error and kernel effect for all states, timeouts and interruption subsets.',
    "level_note": 'Trusted: kernel model (interrupted connect either did nothing or continues asynchronously); bounds: <=3 interruptions per call.',
    "technique": 'CBMC two-run equivalence on a socket kernel model',
    "design_ref": 'DESIGN.md §3 C19',
}


def queries(tier):
    sock_common.TIER = tier
    F = 3
    qs = []
    for op, nm in ((1, "receive"), (2, "send"), (3, "accept"), (4, "connect"), (5, "io_condition_wait"), (6, "receive_from"), (7, "send_to")):
        qs.append(sq("sock_eintr_%s_I%d" % (nm, F), "harness/C19_sock.c", defs=["OP=%d" % op], faults=F, funcs=FUNCS,
                     bounds={"interruptions_per_call": F, "state": "arbitrary queue fill/content, ready or not, any timeout"}))
    return qs
