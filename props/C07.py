"""C07 shared memory: real pshm-posix.c + psemaphore-posix.c + psysclose-unix.c over models/kernel_ipc.c (2 emulated processes)."""
from vf import Q, load_findings
KM = ["models/kernel_ipc.c", "models/kernel_ipc_keystub.c", "models/alloc.c", "models/verif.c", "models/libc_stub.c"]
SHM_UNITS = ["src/pshm-posix.c", "src/psemaphore-posix.c", "src/psysclose-unix.c", "src/perror.c", "src/pstring.c", "src/pmem.c"]
REDIR = ["models/redir_ipc.h"]
UW = {"p_semaphore_acquire.0": 2, "pp_semaphore_create_handle.0": 2, "pp_semaphore_create_handle.1": 2,
      "pp_shm_create_handle.0": 2, "pp_shm_create_handle.1": 2}
FUNCS = ["p_shm_new", "pp_shm_create_handle", "pp_shm_clean_handle", "p_shm_take_ownership", "p_shm_free", "p_shm_lock", "p_shm_unlock",
         "p_shm_get_address", "p_shm_get_size", "p_semaphore_new", "pp_semaphore_create_handle", "p_semaphore_acquire", "p_semaphore_release",
         "p_semaphore_free", "p_sys_close"]
META = {
 "assumptions": [
  "kernel = models/kernel_ipc.c (trusted, from POSIX shm_open/ftruncate/fstat/mmap/munmap/close/shm_unlink + shm_overview(7), and the semaphore part of C06): "
  "a new object has length 0, ftruncate sets the exact length (fstat reports it), mmap of length 0 fails with EINVAL, mappings are page granular "
  "(model page = 4 bytes, segments <= 3 pages; the library never asks for the page size), every mapping of an object starts at the object's backing store, "
  "unlinked objects live on for their mappings",
  "a p_shm_lock that finds the lock taken ends the path (a blocked call does not return); it is a violation when the reference says the lock is free",
  "p_ipc_get_platform_key replaced by the injective stub models/kernel_ipc_keystub.c (real function decided by C06 realkey_sha1_names, incl. the derived lock-semaphore names)",
  "race_*: nested-atomic emulation, depth 1: process Q's whole p_shm_new runs at the entry of the k-th system call of process P's p_shm_new (one query per k)",
  "crash_*: SIGKILL of P before a symbolic one of its system calls or while idle (also while holding the lock); recovery = p_shm_new, take ownership, "
  "p_shm_free, p_shm_new again, where a first p_shm_new that fails is tolerated if the final one succeeds",
  "leftover_any_state: the kernel state of the name before the clean-up is constructed directly in the model (segment absent / any size and bytes, lock semaphore absent / value 0..2, "
  "nobody attached) instead of being produced by kill sequences; zero-length leftovers are the open finding C07_crash_zero_size",
  "reentrant_*: two threads of one process; the second thread's whole call runs at the k-th allocator entry (table installed through p_mem_set_vtable) of the first one, one query per k; real SHA-1 on the concrete names alpha / bravo",
  "hist*_fd_from_0: the model hands out descriptors starting at 0 (process with stdin closed) instead of 3",
  "lock_eintr_max2: sem_wait interrupted at a symbolic subset (<=2) of its invocations inside p_shm_lock; shm_names_*: see C06 names_len*_realkey",
  "allocator never fails (C18), EINTR only in lock_eintr_* (the rest: C19), printf empty"],
 "outside": ["overlapping p_shm_new calls of two threads at allocator entries after the first key derivation (entries > 10: those are p_semaphore_new's, decided by C06 reentrant_sem_new_*); overlaps at points that are not allocator entries", "kernel semantics themselves; real page protection (P_SHM_ACCESS_READONLY)", "pshm-sysv.c (not built on this platform; its segment lifetime - removed when the last process detaches - needs its own reference model; psemaphore-sysv.c is covered by C06 *_sysv)", "more than 2 processes, one handle per process, one name",
             "preemption depth > 1 (A1 B1 A2 B2 interleavings)", "histories longer than the stated number of calls",
             "a p_shm_new that loses a first-open race may return NULL (it then holds nothing); only the handles handed out are required to be coherent",
             "unmapping / descriptor accounting (C20)"],
}
MANIFEST = {
 "level_text": "Bounded model checking of the real pshm-posix.c (with the real psemaphore-posix.c as its lock) over an executable kernel model with two emulated processes: "
               "every history of N calls (new with any size 0..3 pages incl. non-multiples, lock, unlock, byte store/load, take_ownership, free) is compared by the SAT solver with a "
               "generation reference after every call (same segment object, reported size inside segment and mapping, creator size exact, one lock value per name, name gone after owner free, "
               "fresh zeroed segment afterwards); first opens of two processes are interleaved at every system call; a SIGKILL before any system call is followed by the documented clean-up. "
               "Cross-process mapping identity, size bookkeeping on re-open with another size, first-open races and kill points are exactly what a single-process test run cannot reach.",
 "level_note": "Trusted: CBMC 6.11 + SAT back end; kernel model (POSIX semantics, page size 4, <=3 pages, 2 processes); key stub. Bounds: <=4 (quick) / <=5 (thorough) calls, "
               "preemption depth 1, crash at any of <=16 system calls. Two genuine defects are recorded as known findings (first-open race; zero-length leftover after a kill).",
 "technique": "CBMC bounded symbolic execution of real units vs. generation reference over a POSIX IPC kernel model; nested-atomic emulation; symbolic crash switch",
 "design_ref": "DESIGN.md §3 C07",
}
def pools(n):
    # every call may create at most one object of each kind
    return ["VK_NSHM=%d" % n, "VK_NSEM=%d" % n, "VK_NSEMH=%d" % (n + 1), "VK_NFD=%d" % (n + 1), "VK_NMAP=%d" % n]
def hist(n, timeout=1500, fd0=False):
    return Q("hist%d%s" % (n, "_fd_from_0" if fd0 else ""), "harness/C07_hist.c", units=SHM_UNITS, models=KM,
             hdefs=["NOPS=%d" % n] + pools(n) + (["VK_FD_BASE=0"] if fd0 else []), includes=REDIR,
             unwindset=dict(UW, **{"harness.0": n + 1}), timeout=timeout, funcs=FUNCS,
             bounds={"calls": n, "processes": 2, "sizes": "0..12 bytes = 0..3 model pages", "names": 1})
def race(at, demo):
    return Q("race_first_open_at%d" % at + ("_kfdemo" if demo else ""), "harness/C07_race.c", units=SHM_UNITS, models=KM,
             hdefs=pools(4) + ["PREEMPT_AT=%d" % at] + (["KF_DEMO_RACE"] if demo else []), includes=REDIR, unwindset=UW, timeout=900, object_bits=12,
             funcs=FUNCS, kf="C07_first_open_race" if demo else None,
             bounds={"preemption_depth": 1, "preempted_before_syscall": at, "sizes": "1..12 each"})
def crash(pcalls, demo=False):
    return Q("crash_recovery" + ("_kfdemo" if demo else "_p%d" % pcalls), "harness/C07_crash.c", units=SHM_UNITS, models=KM,
             hdefs=pools(pcalls + 3) + ["PCALLS=%d" % pcalls] + (["KF_DEMO_ZERO"] if demo else []), includes=REDIR,
             unwindset=dict(UW, **{"harness.0": pcalls + 1}), timeout=1500, funcs=FUNCS, kf="C07_crash_zero_size" if demo else None,
             bounds={"calls_of_killed_process": pcalls, "crash_point": "before any of its <=16 system calls, or idle", "segment_preexists": "symbolic"})
def leftover():
    demo = False
    return Q("leftover_any_state", "harness/C07_leftover.c", units=SHM_UNITS, models=KM,
             hdefs=pools(5) + (["KF_DEMO_ZERO"] if demo else []), includes=REDIR, unwindset=dict(UW, **{"harness.0": 13}), timeout=900, funcs=FUNCS,
             kf="C07_crash_zero_size" if demo else None,
             bounds={"leftover_segment": "absent or linked with any size 0..12 and any bytes", "leftover_lock_semaphore": "absent or linked with value 0..2",
                     "attached_processes": 0, "new_sizes": "1..12 each"})
def lock_eintr(n=2):
    return Q("lock_eintr_max%d" % n, "harness/C07_lock_eintr.c", units=SHM_UNITS, models=KM, hdefs=pools(3) + ["EINTR_MAX=%d" % n], includes=REDIR,
             unwindset=dict(UW, **{"p_semaphore_acquire.0": n + 2}), timeout=600, funcs=["p_shm_lock", "p_shm_unlock", "p_semaphore_acquire", "p_semaphore_release"],
             bounds={"eintr_in_sem_wait": "symbolic subset, <= %d" % n, "other_process_holds_lock": "symbolic"})
def reentrant(kind, at):
    # real name handling + real SHA-1 key derivation; the other thread's whole call runs at the at-th allocator entry of the outer call
    import C06
    kn = ["sem_new", "shm_new", "shm_buffer_new", "key"][kind]
    units = {0: C06.SEM_UNITS, 1: SHM_UNITS, 2: ["src/pshmbuffer.c"] + SHM_UNITS, 3: ["src/pstring.c", "src/pmem.c"]}[kind]
    units = units + [u for u in C06.HASH_UNITS if u not in units]
    return Q("reentrant_%s_at%d" % (kn, at), "harness/C07_reentrant.c", units=units,
             models=["models/kernel_ipc.c", "models/alloc.c", "models/verif.c", "models/libc_stub.c"],
             hdefs=["KIND=%d" % kind, "PREEMPT_AT=%d" % at, "VK_REAL_NAMES"] + (["VK_PAGE=16", "VK_NPAGES=2"] if kind == 2 else []),
             includes=REDIR, unwind=130, unwindset=UW, timeout=600, flags=["--max-field-sensitivity-array-size", "256"],
             funcs=["p_ipc_get_platform_key", "p_crypto_hash_new", "p_crypto_hash_update", "p_crypto_hash_get_string", "p_crypto_hash_free"],
             bounds={"overlap": "other thread's whole call at allocator entry %d of the outer call (depth 1)" % at, "names": "alpha / bravo (concrete)"})
def is_open(fid):
    return any(f["id"] == fid and f.get("status") == "open" for f in load_findings())
def names(tier):
    # long names through the real p_shm_new name handling + real SHA-1 key derivation (harness shared with C06)
    import C06
    qs = [C06.names(n, kind=1) for n in ([51, 100] if tier == "quick" else C06.NAME_LENS)]
    for q in qs: q.name = "shm_" + q.name
    return qs
def queries(tier):
    if tier == "quick":
        qs = [hist(4), hist(3, fd0=True), crash(3), crash(1, demo=True)]
    else:
        qs = [hist(4), hist(4, fd0=True), hist(5, timeout=3000), crash(4), crash(1, demo=True)]
    # Q's open before P's k-th system call: 1 shm_open, 2 ftruncate, 3 mmap, 4 close, 5 sem_open.  Positions 3..5 are the
    # known first-open race: while it is open one demonstration query runs, once fixed all positions are ordinary queries
    qs += names(tier) + [leftover(), lock_eintr(2)]
    # re-entrancy of the name -> key derivation: bare key function at each of its 7 allocator entries; p_shm_new at the entries of its first
    # key derivation (entries 1..10; the lock semaphore's derivation is p_semaphore_new's: C06 reentrant_sem_new_*)
    qs += [reentrant(3, k) for k in range(1, 8)] + [reentrant(1, k) for k in ([3, 5, 7, 9] if tier == "quick" else range(1, 11))]
    qs += [race(1, False), race(2, False)]
    if is_open("C07_first_open_race"):
        qs += [race(5, True)]
    else:
        qs += [race(3, False), race(4, False), race(5, False)]
    return qs
