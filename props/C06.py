"""C06 named semaphore: real psemaphore-posix.c over the kernel model models/kernel_ipc.c (2 emulated processes)."""
from vf import Q
KM = ["models/kernel_ipc.c", "models/kernel_ipc_keystub.c", "models/alloc.c", "models/verif.c", "models/libc_stub.c"]
SEM_UNITS = ["src/psemaphore-posix.c", "src/perror.c", "src/pstring.c", "src/pmem.c"]
HASH_UNITS = ["src/pipc.c", "src/pcryptohash.c", "src/pcryptohash-sha1.c", "src/pcryptohash-md5.c", "src/pcryptohash-sha2-256.c",
              "src/pcryptohash-sha2-512.c", "src/pcryptohash-sha3.c", "src/pcryptohash-gost3411.c", "src/pstring.c", "src/pmem.c"]
REDIR = ["models/redir_ipc.h"]
# retry loops: no EINTR is injected in these queries, one extra iteration is asserted unreachable
UW = {"p_semaphore_acquire.0": 2, "pp_semaphore_create_handle.0": 2, "pp_semaphore_create_handle.1": 2}
FUNCS = ["p_semaphore_new", "pp_semaphore_create_handle", "pp_semaphore_clean_handle", "p_semaphore_take_ownership", "p_semaphore_acquire",
         "p_semaphore_release", "p_semaphore_free", "p_error_get_last_system"]
META = {
 "assumptions": [
  "kernel = models/kernel_ipc.c (trusted, written from POSIX sem_open/sem_wait/sem_post/sem_close/sem_unlink + sem_overview(7)): name table with "
  "linked/unlinked generations, O_CREAT|O_EXCL -> EEXIST, plain open of a missing name -> ENOENT, unlinked objects live on for their open handles; "
  "errno per emulated process via a model of __errno_location",
  "a sem_wait that finds no unit ends the path (sequential emulation: a blocked call does not return); it is a violation when the reference says a unit is available",
  "history / crash queries: p_ipc_get_platform_key replaced by the injective stub models/kernel_ipc_keystub.c; the REAL function (SHA-1) is run on the same "
  "names in realkey_sha1_names: well-formed and pairwise distinct keys",
  "crash = SIGKILL before a symbolic one of the process' IPC system calls or while idle: later calls of that process are no-ops (ECANCELED), "
  "the kernel closes its handles, names persist",
  "nested-atomic emulation (hist*_preempt): at the entry of sem_wait/sem_post of one process the other process may run one whole acquire/release (depth 1)",
  "names_len*_realkey: REAL name handling (name + suffix) and REAL p_ipc_get_platform_key over the kernel model in string-name mode, concrete names of 1..100 characters "
  "(pairs differing only in the last / only in the first character, and an equal copy); run with --max-field-sensitivity-array-size 256 so that heap strings > 64 bytes stay constant",
  "reentrant_sem_new_at*: two threads open different names; the second thread's whole p_semaphore_new runs at the k-th allocator entry of the first (one query per k, real SHA-1)",
  "new_preempted_by_{free,create}_at<k>: process Q's whole owner free / new(CREATE) runs before the k-th system call of process P's p_semaphore_new (k = 1..3 inside, 4 = afterwards); "
  "P may fail cleanly in the window; a handle it gets must sit on a counter whose value fits a serial order (a counter P created holds exactly n)",
  "initval_*: init_val is a fully symbolic pint; negative values are the documented invalid argument (NULL); histories draw init from 0..VMAX",
  "hist*_eintr2: sem_wait fails with EINTR (no effect) at a symbolic subset (<=2) of its invocations inside every acquire of the history",
  "*_sysv: the same harnesses against src/psemaphore-sysv.c (+ the key-file helpers of pipc.c) over the System V flavour of models/kernel_ipc.c: semget/semctl(SETVAL, IPC_RMID)/semop "
  "with EEXIST/ENOENT/EINVAL|EIDRM/ERANGE semantics, new sets start at 0, SEMVMX = 32767, SEM_UNDO adjustments applied when a process is killed and cleared by SETVAL, "
  "key file = name ledger behind open(O_CREAT|O_EXCL)/stat/unlink, ftok = injective function of the key file PATH (inode not modelled), ids never reused",
  "*_sysv reference: CREATE on an existing name resets the value of the same set (all attached handles keep sharing it); an owner free removes the set behind the handle's own id; "
  "a handle whose set was removed re-attaches at its next acquire/release with the mode and initial value it was opened with, which the reference treats as one more open at that moment "
  "(the interrupted release is not repeated by the library); hist*_after2opens: the first two calls are forced to be opens of name a through handles 0 and 1",
  "allocator never fails (C18), EINTR only in hist*_eintr* (rest: C19), printf empty"],
 "outside": ["kernel semantics themselves (model trusted; SEM_VALUE_MAX = INT_MAX as on this platform)", "psemaphore-sysv.c beyond the *_sysv queries (nested acquire/release of the other process: 4.3 M steps, out of memory; ftok depending on the inode of a re-created key file; semid reuse); pshm-sysv.c (its segment lifetime - removal when the last process detaches - needs its own reference model)", "more than 2 processes / 3 handles / 2 names", "names other than the concrete ones used (key collisions of SHA-1 prefixes are possible in principle)",
             "histories longer than the stated number of calls", "counter values above VMAX+2",
             "p_semaphore_new overlapped by calls other than one whole owner free / new(CREATE) of one other process (depth 1)",
             "stale handles (opened before a CREATE-mode re-creation or an owner free of the name): only their non-interference with the current counter is checked"],
}
MANIFEST = {
 "level_text": "Bounded model checking of the real psemaphore-posix.c over an executable kernel model with two emulated processes: every history of N API calls "
               "(new OPEN/CREATE with any initial value, acquire, release, take_ownership, free) over 2 names x 3 handles is compared by the SAT solver, after every call, "
               "with a per-name generation-counter reference (name linked iff it should exist, published counter value, blocking only without units); a SIGKILL of a "
               "process before any of its system calls is followed by the documented recovery, which must end with a fresh counter; the initial value is additionally decided for ALL 2^32 pint values "
               "(fresh counter holds exactly the given value, a later OPEN with any other value sees it unchanged). The rules only differ from a trivial "
               "implementation on histories where the name already exists - exactly the histories the unit tests avoid - and the state space is small enough to decide exhaustively within the bound.",
 "level_note": "Configurations: POSIX (psemaphore-posix.c, the unit built here) and System V (psemaphore-sysv.c, *_sysv queries over the System V flavour of the model). Trusted: CBMC 6.11 + SAT back end; kernel model (POSIX / System V semantics, 2 processes); key stub (real SHA-1 key function decided separately on the same names). "
               "Bounds: <=5 (quick) / <=6 (thorough) calls, 2 names, 3 handles, initial values 0..2/3 in histories and all 2^32 values in initval_*, preemption depth 1 for acquire/release, crash at any of <=12 system calls.",
 "technique": "CBMC bounded symbolic execution of real units vs. generation-counter reference over a POSIX IPC kernel model; symbolic crash switch; nested-atomic emulation",
 "design_ref": "DESIGN.md §3 C06",
}
def hist(n, nh, preempt=False, kfdemo=False, vmax=2, timeout=1500, eintr=0, prologue=False):
    defs = ["NOPS=%d" % n, "NH=%d" % nh, "VMAX=%d" % vmax, "VK_NSEM=%d" % (n + 1), "VK_NSEMH=%d" % (n + 1)]
    if preempt: defs.append("PREEMPT")
    if kfdemo: defs.append("KF_DEMO_CREATE_EXISTING")
    if eintr: defs.append("EINTR_MAX=%d" % eintr)
    if prologue: defs.append("PROLOGUE2")
    return Q("hist%d_h%d%s%s%s" % (n, nh, "_preempt" if preempt else "", "_kfdemo" if kfdemo else "", "_eintr%d" % eintr if eintr else "") + ("_after2opens" if prologue else ""), "harness/C06_hist.c",
             units=SEM_UNITS, models=KM, hdefs=defs, includes=REDIR, unwindset=dict(UW, **{"harness.0": n + 1, "p_semaphore_acquire.0": eintr + 2}), timeout=timeout, funcs=FUNCS,
             kf="C06_create_existing" if kfdemo else None,
             bounds={"calls": n, "names": 2, "handles": nh, "processes": 2, "init_values": "0..%d" % vmax,
                     "preemption_depth": 1 if preempt else 0, "eintr_per_acquire": eintr})
def realkey():
    return Q("realkey_sha1_names", "harness/C06_realkey.c", units=HASH_UNITS, models=["models/alloc.c", "models/verif.c", "models/libc_stub.c"],
             unwind=90, timeout=600, funcs=["p_ipc_get_platform_key", "p_crypto_hash_new", "p_crypto_hash_update", "p_crypto_hash_get_string"],
             bounds={"names": "a/b x sem/shm suffix + the two derived lock-semaphore names (concrete)"})
def crash(pcalls):
    return Q("crash_recovery_p%d" % pcalls, "harness/C06_crash.c", units=SEM_UNITS, models=KM,
             hdefs=["PCALLS=%d" % pcalls, "VK_NSEM=%d" % (pcalls + 4), "VK_NSEMH=%d" % (pcalls + 5)], includes=REDIR,
             unwindset=dict(UW, **{"harness.0": pcalls + 1}), timeout=900, funcs=FUNCS,
             bounds={"calls_of_killed_process": pcalls, "crash_point": "before any of its <=12 system calls, or idle", "name_preexists": "symbolic"})
def initval(existing):
    return Q("initval_any_int" + ("_create_on_existing" if existing else "_fresh_name"), "harness/C06_initval.c", units=SEM_UNITS, models=KM,
             hdefs=["ON_EXISTING"] if existing else [], includes=REDIR, unwindset=UW, timeout=600, funcs=FUNCS,
             bounds={"init_val": "all 2^32 pint values (symbolic)", "later_open_init_val": "all 2^32 values", "modes": "CREATE, OPEN" if not existing else "CREATE on an existing name"})
NAME_LENS = [1, 49, 50, 51, 63, 64, 100]
def names(n, kind=0):
    # real name handling + real SHA-1 key over the kernel model in string-name mode (concrete names: the hash constant-folds)
    units = {0: SEM_UNITS, 1: ["src/pshm-posix.c", "src/psysclose-unix.c"] + SEM_UNITS,
             2: ["src/pshmbuffer.c", "src/pshm-posix.c", "src/psysclose-unix.c"] + SEM_UNITS}[kind]
    units = units + [u for u in HASH_UNITS if u not in units]
    return Q("names_len%d_realkey" % n, "harness/C0%d_names.c" % (6 + kind), units=units,
             models=["models/kernel_ipc.c", "models/alloc.c", "models/verif.c", "models/libc_stub.c"],
             hdefs=["LEN=%d" % n, "VK_REAL_NAMES"] + (["VK_PAGE=16", "VK_NPAGES=2"] if kind == 2 else []), includes=REDIR,
             unwind=max(130, n + 30), unwindset=dict(UW, **{"pp_shm_create_handle.0": 2, "pp_shm_create_handle.1": 2}), timeout=600,
             # heap strings longer than 64 bytes stay constant-propagated only with a larger field-sensitivity limit (measured: 60 s+ -> 2 s)
             flags=["--max-field-sensitivity-array-size", "256"],
             funcs=["p_semaphore_new", "p_shm_new", "p_shm_buffer_new", "p_ipc_get_platform_key"][kind:kind + 1] + ["p_ipc_get_platform_key"],
             bounds={"name_length": n, "names": "A, A with another last character, A with another first character, an equal copy of A (concrete)"})
def race(qop, at):
    return Q("new_preempted_by_%s_at%d" % (["free", "create"][qop], at), "harness/C06_race.c", units=SEM_UNITS, models=KM,
             hdefs=["QOP=%d" % qop, "PREEMPT_AT=%d" % at, "VK_NSEM=4", "VK_NSEMH=6"], includes=REDIR,
             unwindset=dict(UW, **{"probe.0": 5, "probe.1": 5}), timeout=600, funcs=FUNCS,
             bounds={"preemption_depth": 1, "preempted_before_syscall": at, "other_call": ["owner p_semaphore_free", "p_semaphore_new(CREATE, v)"][qop],
                     "values": "0..3", "mode": "OPEN | CREATE symbolic"})
# ---- System V configuration: the same harnesses against src/psemaphore-sysv.c over the System V flavour of the kernel model ----
SYSV_UNITS = ["src/psemaphore-sysv.c", "src/pipc.c", "src/psysclose-unix.c", "src/perror.c", "src/pstring.c", "src/pmem.c"]
SYSV_UW = {"p_semaphore_acquire.0": 2, "p_semaphore_acquire.1": 2, "p_semaphore_release.0": 2}
def sysv(q, extra_uw=None):
    q.name += "_sysv"
    q.units = SYSV_UNITS
    q.includes = ["models/redir_ipc_sysv.h"]
    q.hdefs = list(q.hdefs) + ["SYSV", "VK_SYSV"]
    q.remove_bodies = ["p_ipc_get_platform_key"]       # pipc.c is needed for the key-file helpers; the key itself comes from the stub
    uw = {k: v for k, v in q.unwindset.items() if not k.startswith("pp_semaphore_create_handle")}
    uw.update(SYSV_UW)
    if extra_uw: uw.update(extra_uw)
    q.unwindset = uw
    q.funcs = ["p_semaphore_new", "pp_semaphore_create_handle", "pp_semaphore_clean_handle", "p_semaphore_take_ownership", "p_semaphore_acquire",
               "p_semaphore_release", "p_semaphore_free", "p_ipc_unix_create_key_file", "p_ipc_unix_get_ftok_key"]
    q.bounds = dict(q.bounds, configuration="System V (psemaphore-sysv.c)")
    return q
def reentrant():
    # p_semaphore_new on two different names by two threads, overlapping at each of the 10 allocator entries of the outer call (harness shared with C07)
    import C07
    return [C07.reentrant(0, k) for k in range(1, 11)]
def queries(tier):
    if tier == "quick":
        return [realkey()] + [names(n) for n in NAME_LENS] + reentrant() + [race(qo, k) for qo in (0, 1) for k in (1, 2, 3, 4)] + [initval(False), initval(True), crash(3), hist(5, 3), hist(4, 3, preempt=True), hist(3, 2, eintr=2), hist(3, 2, kfdemo=True), sysv(hist(6, 2, prologue=True)), sysv(initval(False)), sysv(initval(True)), sysv(crash(3))]
    return [realkey()] + [names(n) for n in NAME_LENS] + reentrant() + [race(qo, k) for qo in (0, 1) for k in (1, 2, 3, 4)] + [initval(False), initval(True), crash(4), hist(6, 3, vmax=3, timeout=3000), hist(5, 3, preempt=True, timeout=3000), hist(4, 3, eintr=2), hist(6, 2, prologue=True), hist(3, 2, kfdemo=True),
            sysv(hist(4, 3)), sysv(hist(6, 2, prologue=True)), sysv(hist(7, 2, prologue=True, timeout=3000)), 
            sysv(hist(4, 2, eintr=2), {"p_semaphore_acquire.0": 4, "p_semaphore_acquire.1": 4}), sysv(initval(False)), sysv(initval(True)), sysv(crash(4))]
