"""Shared pieces of the C01-C03 property modules (CBMC native threads over the pthread / atomics models)."""
BASE = ["models/verif.c", "models/libc_stub.c"]
PT = ["models/pthread_model.c"] + BASE
REDIR_PT = ["models/redir_pthread.h"]
# thread harnesses: CBMC's automatic arithmetic/pointer instrumentation is switched off (pointer checks are unusable
# with CBMC threads anyway); the obligations are the P assertions of harness and model.
TFLAGS = ["--no-standard-checks"]


def caps(nthr, nmtx=0, ncv=0, nrw=0, spurious=None):
    d = ["VM_NTHR=%d" % nthr, "VM_NMTX=%d" % nmtx, "VM_NCV=%d" % ncv, "VM_NRW=%d" % nrw]
    if spurious is not None:
        d.append("VM_SPURIOUS=%d" % spurious)
    return d


def roles(rs):
    return ["T%d='%s'" % (i + 1, r) for i, r in enumerate(rs)]


TRUSTED = ("Trusted: CBMC 6.11 (partial-order encoding of threads, SAT back end); the pthread model "
           "(models/pthread_model.c: POSIX contract of mutex / condition variable / rwlock, signal wakes exactly one "
           "nondeterministically chosen waiter, bounded spurious wake-ups); the builtin models of the __atomic/__sync "
           "operations (one indivisible step each, x86 fence mapping, C11 release/acquire ghost).")


def ensure_instrument_units():
    """vf.Q(instrument_units=[goto-instrument argv...]): post-compile instrumentation of the UNIT objects (e.g. ["--havoc-loops"])
    before linking.  Proposed as a small hook for lib/vf.py (see the patch text below); until the framework has it this shim adds it
    at import time WITHOUT touching lib/vf.py - it becomes a no-op as soon as vf.Q knows the parameter.

    --- proposed lib/vf.py change --------------------------------------------------------------
    Q.__init__(..., instrument_units=()):   self.instrument_units = list(instrument_units)
    Builder.build, after the remove_bodies block:
        if q.instrument_units:
            ins = []
            for o in uobjs:
                key = ("ins", o, tuple(q.instrument_units))
                with self._keylock(key):
                    if key not in self.cache:
                        so = o[:-3] + "_ins%d.gb" % len(self.cache)
                        rc, out, _ = run(["goto-instrument"] + list(q.instrument_units) + [o, so], timeout=300)
                        if rc != 0: raise RuntimeError("goto-instrument failed:\n" + out[-2000:])
                        self.cache[key] = so
                ins.append(self.cache[key])
            uobjs = ins
    ---------------------------------------------------------------------------------------------
    """
    import inspect, threading
    import vf
    if "instrument_units" in inspect.signature(vf.Q.__init__).parameters or getattr(vf, "_conc_instrument_shim", False):
        return
    vf._conc_instrument_shim = True
    tl = threading.local()
    q_init, b_build, b_cc = vf.Q.__init__, vf.Builder.build, vf.Builder._cc

    def init(self, *a, instrument_units=(), **k):
        q_init(self, *a, **k)
        self.instrument_units = list(instrument_units)

    def build(self, q, idx):
        tl.ins = list(getattr(q, "instrument_units", ()))
        try:
            return b_build(self, q, idx)
        finally:
            tl.ins = []

    def cc(self, src, extra, tag, export_local=False):
        out = b_cc(self, src, extra, tag, export_local)
        ins = getattr(tl, "ins", [])
        if tag != "u" or not ins:
            return out
        key = ("ins", out, tuple(ins))
        with self._keylock(key):
            if key not in self.cache:
                so = out[:-3] + "_ins.gb"
                rc, o, _ = vf.run(["goto-instrument"] + ins + [out, so], timeout=300)
                if rc != 0:
                    raise RuntimeError("goto-instrument %s failed for %s:\n%s" % (" ".join(ins), out, o[-2000:]))
                self.cache[key] = so
            return self.cache[key]

    vf.Q.__init__, vf.Builder.build, vf.Builder._cc = init, build, cc
