"""Shared pieces of the C01-C03 property modules (CBMC native threads over the pthread / atomics models)."""
BASE = ["models/verif.c", "models/libc_stub.c"]
PT = ["models/pthread_model.c"] + BASE
REDIR_PT = ["models/redir_pthread.h"]
# thread harnesses: CBMC's automatic arithmetic/pointer instrumentation is switched off (pointer checks are unusable
# with CBMC threads anyway); the obligations are the P assertions of harness and model.
TFLAGS = ["--no-standard-checks"]


def caps(nthr, nmtx=0, ncv=0, nrw=0, spurious=None):
    d = ["VM_NTHR=%d" % nthr, "VM_NMTX=%d" % nmtx, "VM_NCV=%d" % ncv, "VM_NRW=%d" % nrw]
    if spurious is not None:
        d.append("VM_SPURIOUS=%d" % spurious)
    return d


def roles(rs):
    return ["T%d='%s'" % (i + 1, r) for i, r in enumerate(rs)]


TRUSTED = ("Trusted: CBMC 6.11 (partial-order encoding of threads, SAT back end); the pthread model "
           "(models/pthread_model.c: POSIX contract of mutex / condition variable / rwlock, signal wakes exactly one "
           "nondeterministically chosen waiter, bounded spurious wake-ups); the builtin models of the __atomic/__sync "
           "operations (one indivisible step each, x86 fence mapping, C11 release/acquire ghost).")
