"""C20 (core modules): resource neutrality of the container / string / error / hash / address / directory / loader / allocator
scripts of C18_core on their success paths and under symbolic failures of the non-memory resources."""
from vf import Q
import C18_core as c18
ALLOC = c18.ALLOC
META = {
 "assumptions": c18.META["assumptions"][:1] + [
  "same scripts, models and stubs as C18_core (see there) with allocation never failing (-DNOFAIL); the non-memory resources fail at symbolic positions: "
  "the environment-model calls of a script are numbered in execution order and at most 1 (quick) / 2 (thorough) of them fail "
  "(opendir/readdir/stat/mkdir/rmdir in models/dir_model.c; access/dlopen/dlsym in models/dl_model.c; getaddrinfo in harness/C18_core_netstub.h; fopen via the script variant)",
  "ledgers: allocations (vm_live), open DIR streams (closedir must hit an open stream: exactly once), dl handles (dlclose exactly once), getaddrinfo results (freeaddrinfo exactly once), "
  "stdio streams of the INI parser (fclose exactly once); asserted equal to their initial values after every object was freed, on every path",
 ] + c18.META["assumptions"][2:11],
 "outside": [
  "leaks on allocation-failure paths (C18)", "file descriptors and mappings: none of the core modules opens one directly (sockets, shm, semaphores: parts C20_sock / C20_ipc)",
  "p_libsys_init/shutdown pair and thread-local storage (thread part / lead)", "scripts are representative call sequences; closedir/dlclose/fclose themselves failing",
  "resources held inside the real C library behind the models",
 ],
}
MANIFEST = {
 "level_text": "Bounded model checking of the real core units: every script creates its objects, uses them and frees them while the environment models keep ledgers of allocations, directory "
               "streams, loader handles, resolver results and stdio streams; which of the numbered environment calls fail (none, one, or two) is a solver variable, so the SAT solver decides "
               "for every failure placement that all ledgers return to their initial value and that every stream/handle is released exactly once (a second close or a foreign pointer is an "
               "assertion failure inside the model). Right level because the forgotten release sits on error exits that tests do not take, and the scripts are small enough to enumerate "
               "every placement.",
 "level_note": "Trusted: CBMC 6.11 + SAT back end; the environment models and their POSIX contracts; the stubs listed under C18_core. Bounds: one script per module, <= 1 (quick) / 2 (thorough) "
               "environment failures per script, directory of 0..2 entries, allocation never failing.",
 "technique": "CBMC bounded symbolic execution of real units against resource-ledger environment models with symbolic failure placement",
 "design_ref": "DESIGN.md §3 C20",
}
def nofail(q, name, extra=()):
    """the C18 script with allocation never failing (-DNOFAIL)"""
    q.name = name
    q.defs = [d for d in q.defs if not d.startswith(("KMAX=", "FAILMODE_", "KF_OPEN_C18")) and d != "MERGED"] + ["NOFAIL"] + list(extra)
    q.bounds = dict(q.bounds); q.bounds.pop("k", None); q.bounds["allocation"] = "never fails (C18 covers failure)"
    return q
def queries(tier):
    base = {q.name: q for q in c18.queries0(tier) if not q.kf}
    qs = []
    for nm in sorted(base):
        if nm.startswith(("dir", "loader", "sockaddr", "hashtable_ops3_from", "hashtable_ops4_from", "ini")) or "_env" in nm:
            continue
        qs.append(nofail(base[nm], nm.replace("_once", "")))
    # non-memory resources: symbolic failures (<= 2 per script)
    DK = 12   # environment calls of the directory script: opendir, 4 x readdir, <= 3 x stat, stat+mkdir, stat+rmdir
    qs.append(nofail(c18.dirq("dir_env1", ["ENV_KMAX=%d" % DK, "ENV_MAXFAULTS=1", "NENT_SYMBOLIC", "NCHOICE=3"], 0, nchoice=3, envk=DK), "dir_env1"))
    qs[-1].bounds.update({"directory": "0..2 entries (symbolic)", "environment": "one failure at any of the %d opendir/readdir/stat/mkdir/rmdir calls, or none" % DK})
    LK = 6    # access, dlopen, dlsym(present) per loader
    qs.append(nofail(c18.loaderq("loader_env2", ["ENV_KMAX=%d" % LK], 0, envk=LK), "loader_env2"))
    qs[-1].bounds.update({"environment": "<= 2 failures at any of the %d access/dlopen/dlsym calls" % LK})
    sa = [q for q in c18.queries0(tier) if q.name == "sockaddr"][0]
    qs.append(nofail(sa, "sockaddr_env1", ["NS_SYM_FAIL"]))
    qs[-1].bounds.update({"environment": "getaddrinfo may fail (symbolic)"})
    if tier != "quick":
        for first in range(1, DK):    # two environment failures: first one at call `first`, second at any later call (or none)
            q = nofail(c18.dirq("x", ["ENV_KMAX=%d" % DK, "ENV_FIRST=%d" % first, "NENT_SYMBOLIC", "NCHOICE=3"], 0, nchoice=3, envk=DK), "dir_env2_at%02d" % first)
            q.bounds.update({"directory": "0..2 entries (symbolic)", "environment": "call %d fails and at most one later call of the %d" % (first, DK)})
            qs.append(q)
    for fn in ((1,) if tier == "quick" else (1, 2)):
        q = nofail(c18.iniq("ini_file%d" % fn, fn, 0), "ini_file%d_present_or_missing" % fn, ["INI_MISSING_CHOICE", "NCHOICE=2"])
        q.defs = [d for d in q.defs if not d.startswith(("K_LO=", "K_HI="))]
        q.unwindset["c18_run_choice.0"] = 3
        q.bounds.update({"environment": "file readable, or fopen fails (script variant)"})
        qs.append(q)
    return qs
