from vf import Q
ALLOC = ["models/alloc.c", "models/verif.c", "models/libc_stub.c"]
META = {
 "assumptions": [
  "allocator = models/alloc.c installed through the real p_mem_set_vtable: blocks come from CBMC malloc (exact bounds, double/foreign free checked), "
  "outstanding-block ledger vm_live, the k-th request (malloc and realloc counted together) fails, either only it or it and every later one",
  "the failure point (k, mode), the script variant and the positions of environment failures are solver variables; for most scripts the harness "
  "dispatches on their value and writes it back as a constant, so that each scenario is executed on its own path (harness/C18_core.h)",
  "printf (P_ERROR/P_WARNING) has an empty body; units using <ctype.h> are compiled with -D__NO_CTYPE (isspace/isdigit are calls to CBMC's C-locale models)",
  "phashtable: 5 buckets through the PLIBSYS_VERIF hook, keys 1, 6, 1|2, 11 (one collision chain, one replacement)",
  "pcryptohash: the static compression functions (their arithmetic is C11's subject) are replaced by a cheap mixing step on the state the unit's own *_digest() accessor points to, "
  "so that every compression call is visible in the digest; only the units of the hash types of a query are linked; results are compared with a reference run of the same calls "
  "without failure executed in the same query",
  "psocketaddress: inet_pton/inet_ntop/getaddrinfo/freeaddrinfo are trivial stand-ins with a getaddrinfo-result ledger (harness/C18_core_netstub.h)",
  "pdir-posix: opendir/readdir/rewinddir/closedir/stat/mkdir/rmdir = models/dir_model.c (stream ledger, closedir must hit an open stream; directory of 2 entries)",
  "plibraryloader-posix: dlopen/dlsym/dlclose/dlerror and access() = models/dl_model.c (handle ledger, dlclose must hit an open handle)",
  "pinifile: fopen/fgets/fclose/sscanf and the string functions = models/stdio_model.c + models/cstring_model.c (C16's models), p_list_foreach replaced by models/C16_foreach.c "
  "(pinifile.c casts its one-argument destructors to PFunc, which CBMC's function-pointer resolution cannot follow), P_INI_FILE_MAX_LINE = 15 through the PLIBSYS_VERIF hook, two concrete files",
  "accepted as documented/degraded results (not flagged): an error object with NULL message when only the message copy fails (p_error_new_literal/copy/set_error/set_message); "
  "shorter lists from p_hash_table_keys/values; a directory entry of type OTHER when the stat() path cannot be allocated; a missing error report when the report itself cannot be allocated; "
  "p_ini_file_parse returning TRUE with sections/keys silently missing (a key may land in the preceding section when the copy of a '[section]' line fails); NULL names in the lists of "
  "p_ini_file_sections/keys when the name copy fails; p_ini_file_parameter_string returning the default value",
  "open known findings (known_findings.json, ids C18_ini_*; the three C18_dir_* ones are fixed in /repo) exclude exactly: the request p_strdup(path) #2/#3 of p_dir_new, p_strdup(d_name) #2 of p_dir_get_next_entry, and the list-node requests of "
  "pinifile.c that follow an owned object (key node, section node, last-section node incl. its from-k-on positions, name/item nodes of sections/keys/parameter_list)",
 ],
 "outside": [
  "scripts are representative call sequences (3-5 container operations, 2 directory entries, 2 INI files), not all call sequences; two independent failing requests other than 'k and all later'",
  "p_strtok (allocates nothing; not executed), p_mem_mmap/munmap, p_libsys_init/shutdown (needs the thread models: thread part / lead)",
  "semantic fidelity of partially parsed INI files under memory shortage (only well-formedness, ledger and memory safety are checked)",
  "behaviour of the real C library / kernel behind the models; allocation failure inside libc (getaddrinfo, opendir, dlopen)",
  "thread, IPC and socket modules (parts C18_thread, C18_ipc, C18_sock)",
 ],
}
MANIFEST = {
 "level_text": "Bounded model checking of the real plist/phashtable/ptree*/pstring/perror/pcryptohash/psocketaddress/pdir-posix/plibraryloader-posix/pinifile/pmem units: "
               "per module one script (constructor, operations, destructor) runs with a failing allocator installed through the public p_mem_set_vtable; the index k of the failing "
               "request and the mode (only k / k and all later) are solver variables ranging over every request of the script, so the SAT solver decides for each k that every call "
               "returns, returns its documented failure or degraded value, leaves earlier objects observably unchanged and usable (an operation or read that failed for lack of memory is retried "
               "and must then give the result of the un-failed run: list/hash-table/tree inserts, error setters, INI readers, address text, directory enumeration, hash text and digests against a "
               "reference run), and that the allocation / DIR-stream / dl-handle ledgers "
               "return to their initial value once everything is freed; CBMC's pointer and bounds checks stand for 'no crash'. Right level because the defects live at the 2nd..n-th "
               "allocation of a call, which the unit tests never reach, while each script has at most ~50 requests so all positions can be decided exhaustively.",
 "level_note": "Trusted: CBMC 6.11 + SAT back end; allocator ledger model; directory, loader, resolver and stdio/string models; hash compression stubs; 5-bucket hash table and 15-byte INI "
               "line buffer via PLIBSYS_VERIF hooks. Bounds: scripts of 3 (quick) / 4-5 (thorough) container operations, 2 directory entries, INI files of 2 (quick) / 5 (thorough) lines; k over all "
               "requests of the script. 9 genuine defects (3 pdir-posix, 6 pinifile) are recorded as known findings with their failing classes excluded and demonstrated separately.",
 "technique": "CBMC bounded symbolic execution of real units under a failing-allocator model with symbolic failure index; resource ledgers in environment models",
 "design_ref": "DESIGN.md §3 C18",
}
def kloops(kmax, nchoice=1, envk=0):
    """bounds of the failure-point dispatch loops in harness/C18_core.h"""
    return {"c18_run_choice.0": nchoice + 1, "c18_run_env.0": envk + 2, "c18_run_env.1": envk + 2, "harness.0": 3, "harness.1": kmax + 2}
HASH_UNITS = ["src/pcryptohash.c", "src/pcryptohash-md5.c", "src/pcryptohash-sha1.c", "src/pcryptohash-sha2-256.c", "src/pcryptohash-sha2-512.c",
              "src/pcryptohash-sha3.c", "src/pcryptohash-gost3411.c", "src/pmem.c"]
# static compression functions: bodies removed (their arithmetic is C11's subject; here they are no-ops on the state)
HASH_PROCESS = ["__CPROVER_file_local_pcryptohash_%s_c_pp_crypto_hash_%s_process" % (f, n) for f, n in
                (("md5", "md5"), ("sha1", "sha1"), ("sha2_256", "sha2_256"), ("sha2_512", "sha2_512"), ("sha3", "sha3"), ("gost3411", "gost3411"))]
DIR_UNITS = ["src/pdir-posix.c", "src/pdir.c", "src/perror.c", "src/pstring.c", "src/pmem.c"]
DIR_FUNCS = ["p_dir_new", "p_dir_get_path", "p_dir_get_next_entry", "p_dir_rewind", "p_dir_free", "p_dir_entry_free", "p_dir_create", "p_dir_remove", "p_dir_is_exists", "p_error_set_error_p"]
def dirq(name, defs, kmax, nchoice=1, envk=0, **kw):
    return Q(name, "harness/C18_core_dir.c", units=DIR_UNITS, models=ALLOC + ["models/dir_model.c"], defs=defs, includes=["models/redir_dir.h"],
             unit_defs=["-D__NO_CTYPE"], unwind=12, unwindset=dict(kloops(kmax, nchoice, envk), **{"c18_streq.0": 65, "strlen.0": 72, "vm_kf_strlen.0": 66}), funcs=DIR_FUNCS,
             bounds={"directory": "2 entries", "k": "0..%d symbolic, once and from-k-on" % kmax, "environment": "never fails"}, timeout=900, object_bits=12, **kw)
LOADER_UNITS = ["src/plibraryloader-posix.c", "src/pfile.c", "src/perror.c", "src/pstring.c", "src/pmem.c"]
def loaderq(name, defs, kmax, envk=0, **kw):
    return Q(name, "harness/C18_core_loader.c", units=LOADER_UNITS, models=ALLOC + ["models/dl_model.c"], defs=defs, includes=["models/redir_dl.h"],
             unit_defs=["-D__NO_CTYPE"], unwind=14, unwindset=kloops(kmax, 1, envk),
             funcs=["p_library_loader_new", "p_library_loader_get_symbol", "p_library_loader_get_last_error", "p_library_loader_free", "p_file_is_exists"],
             bounds={"loaders": 2, "k": "0..%d symbolic, once and from-k-on" % kmax}, timeout=600, **kw)
INI_UNITS = ["src/pinifile.c", "src/pstring.c", "src/plist.c", "src/pmem.c", "src/perror.c"]
def iniq(name, filen, kmax, defs=(), klo=0, khi=None, **kw):
    import C16
    L = 15
    uw = C16.uw(L, 7, 4, 4)
    uw.update(kloops(kmax))
    uw.update({"script.%d" % i: 3 for i in range(7)})     # retry loops of the readers
    uw.update({"c18_streq.0": 65, "put_file.0": 40, "free_strings.0": 5, "vm_strlen.0": 40, "vm_memcpy.0": 41})   # error text of the fopen failure: 31 characters
    return Q(name, "harness/C18_core_ini.c", units=INI_UNITS, models=ALLOC + ["models/C16_foreach.c", "models/cstring_model.c", "models/stdio_model.c"],
             defs=["INIFILE=%d" % filen, "KMAX=%d" % kmax, "K_LO=%d" % klo, "K_HI=%d" % (kmax if khi is None else khi), "__NO_CTYPE", "PLIBSYS_VERIF", "PLIBSYS_VERIF_INI_MAX_LINE=%d" % L] + list(defs),
             includes=["models/redir_ini.h"], export_local=True, remove_bodies=["p_list_foreach"], unwindset=uw, object_bits=12,
             funcs=["p_ini_file_new", "p_ini_file_parse", "p_ini_file_sections", "p_ini_file_keys", "p_ini_file_is_key_exists", "p_ini_file_parameter_string",
                    "p_ini_file_parameter_int", "p_ini_file_parameter_boolean", "p_ini_file_parameter_list", "p_ini_file_free"],
             bounds={"file": {1: "[s] a=1", 2: "[s] a=1 l={1 2} [t] b=2", 3: "[s] a=1 [t] b=2", 4: "[e] [t] b=2 (first section empty)"}[filen], "P_INI_FILE_MAX_LINE": L, "k": "%d..%d, once and from-k-on" % (klo, kmax if khi is None else khi)}, timeout=900, **kw)
TREE_UNITS = ["src/ptree.c", "src/ptree-bst.c", "src/ptree-rb.c", "src/ptree-avl.c", "src/pmem.c"]
def tree(tt, nm, n):
    d = n + 2
    uw = {"script.0": n + 2, "script.1": n + 2, "script.2": n + 2, "same_as_model.0": n + 1, "ref_find.0": n + 1, "ref_insert.0": n + 1, "ref_insert.1": n + 1,
          "p_tree_lookup.0": d, "p_tree_foreach.0": 2 * n + 2, "p_tree_foreach.1": d, "p_tree_clear.0": 2 * n + 2, "p_tree_clear.1": n + 1,
          "p_tree_bst_insert.0": d, "p_tree_bst_remove.0": d, "p_tree_bst_remove.1": d,
          "p_tree_rb_insert.0": d, "p_tree_rb_remove.0": d, "p_tree_rb_remove.1": d, "pp_tree_rb_balance_insert.0": d, "pp_tree_rb_balance_remove.0": d,
          "p_tree_avl_insert.0": d, "p_tree_avl_remove.0": d, "p_tree_avl_remove.1": d, "pp_tree_avl_balance_insert.0": d + 1, "pp_tree_avl_balance_remove.0": d}
    return Q("tree_%s_ops%d" % (nm, n), "harness/C18_core_tree.c", units=TREE_UNITS, models=ALLOC,
             defs=["TTYPE=%d" % tt, "TOPS=%d" % n, "KMAX=%d" % (n + 2), "NCHOICE=2"], unwindset=dict(uw, **kloops(n + 2, 2)),
             funcs=["p_tree_new_with_data", "p_tree_new_full", "p_tree_insert", "p_tree_%s_insert" % nm, "p_tree_remove", "p_tree_lookup", "p_tree_foreach", "p_tree_clear", "p_tree_free"],
             bounds={"inserts": n, "k": "0..%d, once and from-k-on" % (n + 2)}, timeout=900)
import vf
def open_defs():
    """-DKF_OPEN_<id> for the open C18 findings.  The runner adds them itself when the module runs merged as C18; when it
    runs stand-alone as C18_core the property id does not match, so they are added here (duplicates are harmless)."""
    return ["KF_OPEN_" + f["id"] for f in vf.load_findings() if f.get("property") == "C18" and f.get("status") == "open"]
def finish(qs):
    od = open_defs()
    for q in qs:
        q.defs = list(q.defs) + [d for d in od if d not in q.defs and not (q.kf and d == "KF_OPEN_" + q.kf)]
    return qs
def queries(tier):
    return finish(queries0(tier))
def queries0(tier):
    qs = []
    n = 3 if tier == "quick" else 5
    qs.append(Q("list_ops%d" % n, "harness/C18_core_list.c", units=["src/plist.c", "src/pmem.c"], models=ALLOC,
                defs=["LOPS=%d" % n, "KMAX=%d" % (n + 1), "MERGED"], unwind=n + 2, unwindset=kloops(n + 1),
                funcs=["p_list_append", "p_list_prepend", "p_list_reverse", "p_list_length", "p_list_free", "p_mem_set_vtable", "p_malloc0", "p_free"],
                bounds={"ops": n, "k": "0..%d, once and from-k-on" % (n + 1)}, timeout=600))
    h = 3 if tier == "quick" else 4
    for mode in ("ONCE", "FROM"):
        qs.append(Q("hashtable_ops%d_%s" % (h, mode.lower()), "harness/C18_core_hashtable.c", units=["src/phashtable.c", "src/plist.c", "src/pmem.c"], models=ALLOC,
                    defs=["HOPS=%d" % h, "KMAX=%d" % (3 * h + 3), "PLIBSYS_VERIF", "PLIBSYS_VERIF_HASH_TABLE_SIZE=5", "NCHOICE=2", "MERGED", "MERGED_CHOICE", "FAILMODE_" + mode], unwind=h + 2,
                    unwindset=dict({"p_hash_table_keys.1": 6, "p_hash_table_values.1": 6, "p_hash_table_free.1": 6}, **kloops(3 * h + 3, 2)),
                    funcs=["p_hash_table_new", "p_hash_table_insert", "p_hash_table_lookup", "p_hash_table_keys", "p_hash_table_values", "p_hash_table_free", "p_list_append"],
                    bounds={"inserts": h, "keys": "1, 6, 1|2 (5 buckets via PLIBSYS_VERIF hook)", "k": "0..%d symbolic, %s" % (3 * h + 3, mode.lower())}, timeout=900, object_bits=12))
    qs.append(Q("string", "harness/C18_core_string.c", units=["src/pstring.c", "src/pmem.c"], models=ALLOC, defs=["KMAX=5", "MERGED"],
                unit_defs=["-D__NO_CTYPE"], unwind=8, unwindset=kloops(5),
                funcs=["p_strdup", "p_strchomp", "p_strtod"], bounds={"k": "0..5 symbolic, once and from-k-on"}, timeout=600))
    qs.append(Q("error", "harness/C18_core_error.c", units=["src/perror.c", "src/pstring.c", "src/pmem.c"], models=ALLOC, defs=["KMAX=9", "MERGED"],
                unit_defs=["-D__NO_CTYPE"], unwind=8, unwindset=dict(kloops(9), **{"c18_streq.0": 65}),
                funcs=["p_error_new", "p_error_new_literal", "p_error_copy", "p_error_set_error", "p_error_set_error_p", "p_error_set_message", "p_error_clear", "p_error_free"],
                bounds={"k": "0..9 symbolic, once and from-k-on"}, timeout=600))
    HN = ["md5", "sha1", "sha2_224", "sha2_256", "sha2_384", "sha2_512", "sha3_224", "sha3_256", "sha3_384", "sha3_512", "gost3411"]
    for nm, types in (("md5_sha1_sha2_gost", [0, 1, 2, 3, 4, 5, 10]), ("sha3_224", [6]), ("sha3_256", [7]), ("sha3_384", [8]), ("sha3_512", [9])):
        sha3 = types[0] in (6, 7, 8, 9)
        hu = ["src/pcryptohash.c", "src/pcryptohash-sha3.c", "src/pmem.c"] if sha3 else [u for u in HASH_UNITS if "sha3" not in u]
        hp = [x for x in HASH_PROCESS if ("sha3" in x) == sha3]
        qs.append(Q("cryptohash_" + nm, "harness/C18_core_cryptohash.c", units=hu, models=ALLOC,
                    defs=["KMAX=3", "NCHOICE=%d" % len(types), "TYPES=" + ",".join(map(str, types))] + (["WITH_SHA3"] if sha3 else []),
                    export_local=True, remove_bodies=hp, unwind=150,
                    unwindset=dict(kloops(3, len(types)), **{"c18_prologue.0": 131, "c18_prologue.1": len(types) + 1, "script.0": 131, "script.1": 3, "same_digest.0": 65}),
                    object_bits=12, flags=["--no-array-field-sensitivity"],
                    funcs=["p_crypto_hash_new", "p_crypto_hash_update", "p_crypto_hash_get_string", "p_crypto_hash_get_digest", "p_crypto_hash_reset", "p_crypto_hash_free"] +
                          ["p_crypto_hash_%s_new" % HN[t] for t in types],
                    bounds={"types": [HN[t] for t in types], "data": "concrete bytes", "k": "0..3 (every request of the script), once and from-k-on; failed constructor and failed get_string are retried once",
                            "reference": "same calls without failure, executed in the same query"}, timeout=900))
    qs.append(Q("sockaddr", "harness/C18_core_sockaddr.c", units=["src/psocketaddress.c", "src/pstring.c", "src/pmem.c"], models=ALLOC, defs=["KMAX=12", "MERGED"],
                unit_defs=["-D__NO_CTYPE"], unwind=41, unwindset=kloops(12),
                funcs=["p_socket_address_new", "p_socket_address_new_any", "p_socket_address_new_loopback", "p_socket_address_new_from_native",
                       "p_socket_address_get_address", "p_socket_address_free"],
                bounds={"k": "0..12 symbolic, once and from-k-on"}, timeout=600))
    qs.append(dirq("dir", ["KMAX=14"], 14))
    qs.append(dirq("dir_kf_new_path", ["KMAX=14", "KF_DEMO_C18_dir_new_path"], 14, kf="C18_dir_new_path"))
    qs.append(dirq("dir_kf_new_orig_path", ["KMAX=14", "KF_DEMO_C18_dir_new_orig_path"], 14, kf="C18_dir_new_orig_path"))
    qs.append(dirq("dir_kf_entry_name", ["KMAX=14", "KF_DEMO_C18_dir_entry_name"], 14, kf="C18_dir_entry_name"))
    qs.append(loaderq("loader", ["KMAX=5", "MERGED"], 5))
    qs.append(Q("mem_vtable", "harness/C18_core_mem.c", units=["src/pmem.c"], models=ALLOC, defs=["KMAX=5", "MERGED"], unwind=10, unwindset=kloops(5),
                funcs=["p_mem_set_vtable", "p_mem_restore_vtable", "p_malloc", "p_malloc0", "p_realloc", "p_free"],
                bounds={"k": "0..5 symbolic, once and from-k-on"}, timeout=600))
    qs.append(iniq("ini_file1", 1, 22))
    # two-section files in the quick tier: a second '[section]' header after a section that was linked (file 3) / freed because empty (file 4);
    # k over all requests, split into windows that start at, and contain from-k-on values of, requests outside the known-finding classes
    for lo, hi in ((0, 11), (12, 23), (24, 36)):
        qs.append(iniq("ini_file3_k%02d" % lo, 3, 36, klo=lo, khi=hi))
    for lo, hi in ((0, 12), (13, 26)):
        qs.append(iniq("ini_file4_k%02d" % lo, 4, 26, klo=lo, khi=hi))
    # demonstrations of the open findings: k restricted to a window around the failing request (the harness assumes the exact class)
    for kf, filen, kmax, kk in (("parse_key_node", 1, 22, 13), ("parse_last_section_node", 1, 22, 14), ("sections_node", 1, 22, 16), ("keys_node", 1, 22, 18),
                                ("parse_section_node", 2, 50, 23), ("list_node", 2, 50, 47)):
        qs.append(iniq("ini_kf_" + kf, filen, kmax, ["KF_DEMO_C18_ini_" + kf], klo=kk - 1, khi=kk + 1, kf="C18_ini_" + kf))
    if tier != "quick":
        # windows chosen so that each starts at, and contains from-k-on values of, requests outside the excluded known-finding classes
        for lo, hi in ((0, 10), (11, 21), (22, 33), (34, 43), (44, 50)):
            qs.append(iniq("ini_file2_k%02d" % lo, 2, 50, klo=lo, khi=hi))
    if tier != "quick":
        # allocation failure combined with one environment failure (error reports themselves are allocated)
        for first in range(1, 13):
            q = dirq("dir_env1_at%02d" % first, ["KMAX=16", "ENV_KMAX=12", "ENV_MAXFAULTS=1", "ENV_FIRST=%d" % first] +
                     (["C18_STOPS_AT_FIRST_FAILURE"] if first == 1 else []), 16, envk=12)   # opendir fails: the script ends after the first failed request
            q.bounds.update({"environment": "call number %d of the opendir/readdir/stat/mkdir/rmdir sequence fails" % first})
            qs.append(q)
        q = loaderq("loader_env2", ["KMAX=7", "MERGED", "ENV_KMAX=6"], 7, envk=6)
        q.bounds.update({"environment": "<= 2 failures at any of the access/dlopen/dlsym calls"})
        qs.append(q)
        sa = [x for x in qs if x.name == "sockaddr"][0]
        qs.append(Q("sockaddr_env1", sa.harness, units=sa.units, models=sa.models, defs=sa.defs + ["NS_SYM_FAIL"], unit_defs=sa.unit_defs, unwind=sa.unwind,
                    unwindset=sa.unwindset, funcs=sa.funcs, bounds=dict(sa.bounds, environment="getaddrinfo may fail (symbolic)"), timeout=600))
    tn = 3 if tier == "quick" else 4
    for tt, nm in ((0, "bst"), (1, "rb"), (2, "avl")):
        qs.append(tree(tt, nm, tn))
    return qs
