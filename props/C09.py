import sock_common
from sock_common import sq, SOCK_ASSUMPTIONS, open_ids

FUNCS = ["p_socket_send", "p_socket_send_to", "p_socket_receive", "p_socket_receive_from", "p_socket_accept", "p_socket_connect",
         "p_socket_io_condition_wait", "p_socket_check_connect_result", "p_socket_new_from_fd", "p_socket_init_once",
         "p_error_get_io_from_system", "p_error_get_last_net", "p_error_set_error_p",
         "p_socket_address_new_from_native", "p_socket_address_to_native", "p_socket_address_get_native_size"]

META = {
    "assumptions": SOCK_ASSUMPTIONS,
    "outside": ["the kernel's TCP/UDP implementation", "payloads > 8 bytes per call (the library never inspects payload bytes)",
                "more than the stated number of library calls per script", "SCTP / SEQPACKET", "select() and Windows back ends"],
}
MANIFEST = {
    "level_text": "Bounded model checking of the real psocket.c/perror.c/psocketaddress.c against a socket kernel model: for every single send/send_to/receive/receive_from call the SAT solver ranges over ALL fault schedules (EINTR, spurious EAGAIN, short transfer, hard errno; <=2 quick / <=4 thorough per call) on every underlying poll/send/recv, all queue fill levels and contents, peer alive/half-closed/gone, a peer acting during the wait, both blocking modes, every timeout and buffer length (incl. >= 2^32), and decides that the call is a transparent conduit (one kernel transfer with the caller's buffer and length, reported count = kernel count, nothing moved on failure), never reports would-block/interrupted in blocking mode, and never raises SIGPIPE; 3-call scripts compare the byte streams end to end; datagram scripts decide boundaries, truncation and the sender address through the real address conversions; connect/accept scripts decide the retry and in-progress logic. Right level because the retry loops are dead code for the test-suite and their bugs sit in rare fault interleavings that only exhaustive exploration of the schedule space reaches; the data path itself is length arithmetic, small enough to decide exactly.",
    "level_note": 'Trusted: CBMC 6.11 + SAT back end; the kernel model models/kernel_sock.c (POSIX/Linux semantics of non-blocking descriptors, 8-byte stream queue, 2-datagram queue, routing by family+port); error recorder in place of p_error_set_error_p; p_strdup/memset stubs. Bounds: <=2/4 faults per library call, payload <= 8 bytes per call, scripts of <= 3-5 library calls. Real TCP/UDP stacks and timing are outside.',
    "technique": 'CBMC bounded symbolic execution of real psocket.c against a socket kernel model with a symbolic fault schedule',
    "design_ref": 'DESIGN.md §3 C09',
}


def queries(tier):
    sock_common.TIER = tier
    F = 2 if tier == "quick" else 4
    qs = []
    # end-to-end byte stream over 3 calls
    Fe = 1 if tier == "quick" else 2     # (every single call is decided with the full F by the call_* queries)
    qs.append(sq("stream_e2e_calls3_F%d" % Fe, "harness/C09_stream.c", defs=["NSTEPS=3", "VS_NFD=2"], faults=Fe, funcs=FUNCS,
                 bounds={"library_calls": 3, "faults_per_call": Fe, "payload_bytes_per_call": 8, "queue_bytes": 8}))
    # sender closes / frees its socket with data still queued, receiver drains afterwards: nothing lost, then EOF
    qs.append(sq("stream_close_then_drain_F%d" % F, "harness/C09_close_drain.c", defs=["VS_NFD=2"], faults=F, funcs=FUNCS + ["p_socket_close", "p_socket_free", "p_socket_shutdown"],
                 bounds={"library_calls": "send, [shutdown], close/free, <= %d receives" % (F + 2), "faults_per_call": F, "sender_timeout": "any int"}))
    # one call from an arbitrary pair state: conduit property, error semantics, SIGPIPE, errno mapping
    for kind, nm in ((1, "send"), (2, "send_to"), (3, "receive"), (4, "receive_from")):
        qs.append(sq("call_%s_F%d" % (nm, F), "harness/C09_call.c", defs=["KIND=%d" % kind], faults=F, funcs=FUNCS,
                     bounds={"library_calls": 1, "faults_per_call": F, "pre_state": "arbitrary queue fill/content, peer alive|half-closed|gone, pending peer action",
                             "buflen": "0..8 plus 2^32+0..8"}))
    for fam, nm in (("AF_INET", "v4"), ("AF_INET6", "v6")):
        qs.append(sq("dgram_%s_F%d" % (nm, F), "harness/C09_dgram.c", defs=["FAMILY=" + fam], faults=F, funcs=FUNCS,
                     bounds={"datagrams": 2, "senders": 2, "faults_per_call": F, "payload": "1..8 bytes", "address": "arbitrary port/address/flow/scope"}))
        qs.append(sq("connect_accept_%s_F%d" % (nm, F), "harness/C09_connect.c", defs=["FAMILY=" + fam, "VS_NFD=4"], faults=F, funcs=FUNCS,
                     bounds={"sockets": "listener+client+accepted", "faults_per_call": F}, mem_gb=16))
    qs.append(sq("dgram_connected_v4_F%d" % F, "harness/C09_dgram.c", defs=["FAMILY=AF_INET", "CONNECTED"], faults=F, funcs=FUNCS,
                 bounds={"datagrams": 2, "faults_per_call": F}))
    return qs
