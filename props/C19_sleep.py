from vf import Q
META = {
 "assumptions": [
  "clock_nanosleep/nanosleep = models/clock_model.c: success advances the model clock by the request; an interruption (symbolic moment, "
  "<= NINTR per call) advances it by a symbolic part, stores a normalised remaining time 0 <= rem <= req; clock_nanosleep RETURNS EINTR and "
  "leaves errno unspecified (havoc); nanosleep returns -1 with errno = EINTR",
  "errno on entry is arbitrary"],
 "outside": ["signals interrupting non-syscall code", "SA_RESTART handlers", "real timing / clock granularity", "more than NINTR interruptions of one call",
             "the select()-based fallback pp_uthread_nanosleep (not compiled on this platform)"],
}
MANIFEST = {
 "level_text": "Bounded model checking of the real p_uthread_sleep for all 2^32 msec values and every placement of up to 3 (quick) / 5 (thorough) interruptions with every admissible remaining time; the kernel contract (EINTR by return value, errno unspecified) is the model. Right level: the EINTR branch is dead code for the test-suite and the defect depends on what errno happens to hold.",
 "level_note": "Trusted: CBMC 6.11, clock model (POSIX contract of clock_nanosleep/nanosleep). Bound: interruptions per call.",
 "technique": "CBMC on real unit + syscall contract model with fault schedule",
 "design_ref": "DESIGN.md §3 C19 (sleep part), §2 clock model",
}
UNITS = ["src/puthread.c", "src/perror.c"]
MODELS = ["models/clock_model.c", "models/verif.c", "models/libc_stub.c"]
def sleepq(name, nintr, extra=(), kf=None, solver="z3", unit_defs=(), tmo=900):
    return Q(name, "harness/C19_sleep.c", units=UNITS, models=MODELS, defs=["NINTR=%d" % nintr] + list(extra), includes=["models/clock_model.h"],
             unit_defs=list(unit_defs), unwindset={"p_uthread_sleep.0": nintr + 2}, funcs=["p_uthread_sleep", "p_error_get_last_system"], kf=kf,
             bounds={"msec": "all 2^32 values", "interruptions": nintr, "remaining_time": "any normalised 0<=rem<=req"}, timeout=tmo, solver=solver)
def reent(na, nb, extra=(), solver="z3", tmo=900):
    return Q("sleep_two_threads_intr%d_%d" % (na, nb), "harness/C19_sleep_reent.c", units=UNITS, models=MODELS,
             defs=["NINTR=%d" % na, "NINTR_B=%d" % nb, "VM_SLEEP_HOOK"] + list(extra), includes=["models/clock_model.h"],
             unwindset={"p_uthread_sleep.0": max(na, nb) + 2}, funcs=["p_uthread_sleep"],
             bounds={"msec": "all 2^32 values for both sleepers", "interruptions_A": na, "interruptions_B": nb,
                     "nesting": "one complete sleep of thread B inside one kernel sleep of thread A (entry or after the remainder was written)"},
             timeout=tmo, solver=solver)
def queries(tier):
    n = 3 if tier == "quick" else 8
    qs = [sleepq("sleep_intr%d" % n, n),                                   # local-invariant form, clock_nanosleep branch (as built)
          sleepq("sleep_sum_intr1", 1, ["CHECK_SUM"], solver="cvc5"),     # end-to-end sum of the model clock
          sleepq("sleep_nanosleep_intr%d" % n, n, unit_defs=["-UPLIBSYS_HAS_CLOCKNANOSLEEP"]),   # the nanosleep() branch of the same function
          sleepq("sleep_kf_demo", 1, ["KF_DEMO"], kf="C19_sleep_eintr_errno"),
          reent(2, 2) if tier == "quick" else reent(3, 3, tmo=2400)]
    if tier != "quick":
        qs.append(sleepq("sleep_sum_intr2", 2, ["CHECK_SUM"], solver="cvc5", tmo=2400))
    return qs
