#!/bin/sh
# offline setup: verify the tools the checks need; nothing is downloaded or built ahead of time
set -e
cd "$(dirname "$0")"
for t in cbmc goto-cc goto-instrument gcc python3; do command -v $t >/dev/null || { echo "missing tool: $t"; exit 1; }; done
cbmc --version
mkdir -p evidence replay/out
[ -x lib/setup_extra.sh ] && ./lib/setup_extra.sh
echo setup ok
