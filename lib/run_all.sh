#!/bin/bash
# lib/run_all.sh [quick|thorough] [ids...]: run every registered check in sequence, one summary line each
T=${1:-quick}; shift
IDS=${@:-$(seq -f "C%02g" 1 20)}
cd "$(dirname "$0")/.."
for p in $IDS; do
  s=$(date +%s); out=$(./check $p --tier $T 2>&1); rc=$?
  echo "$p rc=$rc $(( $(date +%s)-s ))s | $(echo "$out" | grep -E "^C[0-9]+ tier" ) | KF=$(echo "$out" | grep -c '^KNOWN-FINDING')"
  echo "$out" | grep -E "^(VIOLATION|INCONCLUSIVE|NOTE)" | head -5
done
