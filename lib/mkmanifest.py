#!/usr/bin/env python3
"""Regenerate /verif/MANIFEST.json from props/Cxx.py (MANIFEST dicts)."""
import os, sys, json, importlib, subprocess
HERE = os.path.dirname(os.path.dirname(os.path.abspath(__file__)))
sys.path.insert(0, os.path.join(HERE, "lib")); sys.path.insert(0, os.path.join(HERE, "props"))
ids = [json.loads(l)["id"] for l in open(os.path.join(HERE, "properties.jsonl"))]
checks, na = [], []
NA_REASON = {}
CLAIMED = set(open(os.path.join(HERE, "lib", "claimed.txt")).read().split())
for pid in ids:
    if pid not in CLAIMED or not os.path.exists(os.path.join(HERE, "props", pid + ".py")):
        na.append({"property_id": pid, "reason": NA_REASON.get(pid, "check under construction in this round (harness not yet committed); nothing is claimed for it")})
        continue
    m = importlib.import_module(pid)
    if len(m.queries("quick")) < 2:
        na.append({"property_id": pid, "reason": NA_REASON.get(pid, "check under construction in this round (no queries committed yet); nothing is claimed for it")})
        continue
    M = getattr(m, "MANIFEST", {})
    checks.append({
        "property_id": pid,
        "quick_cmd": "./check %s --tier quick" % pid,
        "thorough_cmd": "./check %s --tier thorough" % pid,
        "evidence_file": "/verif/evidence/%s.json" % pid,
        "replay_cmd_template": "./check %s --replay {path}" % pid,
        "engine": "cbmc-real-code",
        "level_claimed": {"category": "model_checking", "text": M.get("level_text", "bounded symbolic execution of the real code; see DESIGN.md"),
                          "design_ref": M.get("design_ref", "DESIGN.md §3")},
        "level_note": M.get("level_note", "trusted: CBMC 6.11 + SAT back end, the environment models listed in evidence.assumptions, stated bounds"),
        "technique": M.get("technique", "solver-based bounded model checking (CBMC) of the real translation units"),
    })
try:
    commits = subprocess.check_output(["git", "-C", "/repo", "log", "--format=%h %s", "--grep=verif hooks"], text=True).strip().splitlines()
except Exception:
    commits = []
man = {
    "version": 1,
    "setup_cmd": "./setup.sh",
    "hooks": {"guard": "PLIBSYS_VERIF",
              "enable": "checks compile the affected units with goto-cc -DPLIBSYS_VERIF -DPLIBSYS_VERIF_<KNOB>=<n> (per query; see props/*.py); the normal build never defines it",
              "baseline_off_cmd": "cmake --build /repo/_build && ctest --test-dir /repo/_build -j8 --timeout 900",
              "source_commits": [c.split()[0] for c in commits], "add_only": True},
    "engines": [{"name": "cbmc-real-code", "path": "/verif/lib/vf.py", "serves_properties": [c["property_id"] for c in checks],
                 "kind_free_text": "goto-cc compiles the real plibsys units with the project's flags; harness + environment models linked in; CBMC 6.11 "
                                   "symbolic execution with unwinding assertions; SAT/SMT back end decides each query; counterexamples written as replay files"}],
    "checks": checks,
    "not_applicable": na,
    "notes": "Every check rebuilds its goto binaries from /repo's working tree on each run (scratch under mktemp, removed at exit). Exit 0 = held on everything explored; exit 1 + VIOLATION line = counterexample; exit 2 + INCONCLUSIVE line = bound/time/memory exceeded or vacuous harness (never reported as success). Known findings: /verif/known_findings.json.",
}
json.dump(man, open(os.path.join(HERE, "MANIFEST.json"), "w"), indent=1)
print("checks:", [c["property_id"] for c in checks], "n/a:", [x["property_id"] for x in na])
