#!/usr/bin/env python3
"""lib/seed_matrix.py [ids...] : run each seeded change (seeded/<id>/patch.diff) against the check of the property it
breaks (meta.json 'property', default: id prefix) on a scratch copy of /repo; append results to seeded/RESULTS.jsonl."""
import os, sys, json, subprocess, time
HERE = os.path.dirname(os.path.dirname(os.path.abspath(__file__)))
ids = sys.argv[1:] or sorted(d for d in os.listdir(os.path.join(HERE, "seeded")) if os.path.isdir(os.path.join(HERE, "seeded", d)))
tier = os.environ.get("SEED_TIER", "quick")
for i in ids:
    prop = i.split("_")[0]
    extra = os.environ.get("SEED_EXTRA_PROPS", "").split()
    t0 = time.time()
    r = subprocess.run([os.path.join(HERE, "lib", "mutant_run.py"), (os.path.join(HERE, "seeded", i, "patch_rebased.diff") if os.path.exists(os.path.join(HERE, "seeded", i, "patch_rebased.diff")) else os.path.join(HERE, "seeded", i, "patch.diff")), prop] + extra + ["--tier", tier],
                       capture_output=True, text=True)
    lines = r.stdout.strip().splitlines()
    verdicts = [l for l in lines if not l.startswith(" ") and (" CAUGHT" in l or " MISSED" in l or " INCONCLUSIVE" in l or "ERROR" in l or "PATCH FAILED" in l)]
    print(i, "|", "; ".join(v.split(" ", 1)[1] if " " in v else v for v in verdicts), "| %.0fs" % (time.time() - t0), flush=True)
    for l in lines:
        if l.startswith("    failed:"):
            print("   ", l.strip()[:160]); break
    with open(os.path.join(HERE, "seeded", "RESULTS.jsonl"), "a") as f:
        f.write(json.dumps({"seed": i, "tier": tier, "verdicts": verdicts, "detail": [l.strip() for l in lines if l.startswith("    ")][:6],
                            "when": time.strftime("%Y-%m-%dT%H:%M:%S")}) + "\n")
