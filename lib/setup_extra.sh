#!/bin/sh
# differential validation of the sscanf model used by C16 against glibc (4*10^5 generated pairs, <2 s)
set -e
cd "$(dirname "$0")/.."
python3 lib/sscanf_diff.py
