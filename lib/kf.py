#!/usr/bin/env python3
"""lib/kf.py adopt [file...]      : move entries of findings/*.json into known_findings.json (status kept)
   lib/kf.py fixed <id> <commit>  : mark a finding fixed by a /repo 'fix:' commit"""
import sys, os, json, glob
HERE = os.path.dirname(os.path.dirname(os.path.abspath(__file__)))
KF = os.path.join(HERE, "known_findings.json")
d = json.load(open(KF))
def save(): json.dump(d, open(KF, "w"), indent=1)
if sys.argv[1] == "adopt":
    files = sys.argv[2:] or sorted(glob.glob(os.path.join(HERE, "findings", "*.json")))
    have = {f["id"] for f in d["findings"]}
    for fn in files:
        for f in json.load(open(fn)).get("findings", []):
            if f["id"] not in have:
                d["findings"].append(f); have.add(f["id"]); print("adopted", f["id"])
        os.remove(fn)
    save()
elif sys.argv[1] == "fixed":
    for f in d["findings"]:
        if f["id"] == sys.argv[2]:
            f["status"] = "fixed"; f["commit"] = sys.argv[3]
            f["fixed_line"] = "fixed: property=%s %s %s" % (f["property"], sys.argv[3], f["what"][:200])
            print("fixed", f["id"])
    save()
