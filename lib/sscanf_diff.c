/* Differential validation of models/stdio_model.c:vm_sscanf against the C library's sscanf.
 * Generates (format, input) pairs from the directive kinds the model supports (white space, literal
 * characters, %%, %[set], %[^set], field widths; the four formats of pinifile.c are drawn with high
 * weight), half of the inputs derived from the format (near-matching) and randomly mutated, and
 * compares the return value and the complete contents of all destination buffers.
 * Build+run: python3 lib/sscanf_diff.py   (exit 0 = no difference in N pairs) */
#include <stdio.h>
#include <string.h>
#include <stdlib.h>
#include "stdio_model.h"
#include "cstring_model.h"
#include <strings.h>

static unsigned long long rs = 0x9E3779B97F4A7C15ull;
static unsigned rnd(void) { rs ^= rs << 13; rs ^= rs >> 7; rs ^= rs << 17; return (unsigned) (rs >> 11); }
static unsigned rn(unsigned n) { return rnd() % n; }

static const char ALPHA[] = "[]=;#\"' \t\nab1%^{}";
#define NALPHA ((unsigned) (sizeof ALPHA - 1))
static const char *REAL[] = { "[%[^]]", "%[^=] = \"%[^\"]\"", "%[^=] = '%[^\']'", "%[^=] = %[^;#]" };

#define MAXCONV 3
#define BUFSZ 64
struct dir { int kind; char lit; int neg; char set[8]; int nset; int width; };   /* kind 0 ws, 1 literal, 2 scanset */
static struct dir dirs[16]; static int ndirs;
static char fmt[128], inp[64];

static int is_ws(char c) { return c == ' ' || c == '\t' || c == '\n'; }

static void parse_real(const char *f) {      /* fill dirs[] from one of the real formats (for input derivation) */
  int i = 0; ndirs = 0;
  while (f[i]) {
    struct dir *d = &dirs[ndirs++];
    memset(d, 0, sizeof *d);
    if (is_ws(f[i])) { d->kind = 0; while (is_ws(f[i])) i++; }
    else if (f[i] == '%') {
      d->kind = 2; i += 2;
      if (f[i] == '^') { d->neg = 1; i++; }
      if (f[i] == ']') d->set[d->nset++] = f[i++];
      while (f[i] != ']') d->set[d->nset++] = f[i++];
      i++;
    } else { d->kind = 1; d->lit = f[i++]; }
  }
}

static void gen_format(void) {
  int nconv = 0, n, k; char *p = fmt;
  if (rn(10) < 4) { const char *r = REAL[rn(4)]; strcpy(fmt, r); parse_real(r); return; }
  n = 1 + (int) rn(6); ndirs = 0;
  for (k = 0; k < n; k++) {
    struct dir *d = &dirs[ndirs];
    unsigned t = rn(10);
    memset(d, 0, sizeof *d);
    if (t < 2) { d->kind = 0; *p++ = " \t\n"[rn(3)]; if (rn(3) == 0) *p++ = ' '; }
    else if (t < 6 || nconv == MAXCONV) {
      char c; do c = ALPHA[rn(NALPHA)]; while (is_ws(c));
      d->kind = 1; d->lit = c; *p++ = c; if (c == '%') *p++ = '%';
    } else {
      int j, m = 1 + (int) rn(3);
      d->kind = 2; d->neg = (int) rn(2); nconv++;
      *p++ = '%';
      if (rn(4) == 0) { d->width = 1 + (int) rn(3); *p++ = (char) ('0' + d->width); }
      *p++ = '[';
      if (d->neg) *p++ = '^';
      for (j = 0; j < m; j++) {
        char c = ALPHA[rn(NALPHA)];
        if (c == ']' && j > 0) c = 'a';        /* ] only as the first member */
        if (c == '^' && j == 0 && !d->neg) c = 'b';  /* a leading ^ would negate */
        d->set[d->nset++] = c; *p++ = c;
      }
      *p++ = ']';
    }
    ndirs++;
  }
  *p = '\0';
}

static void gen_input(void) {
  int n = 0, k, j;
  if (rn(2)) {            /* derived from the format */
    for (k = 0; k < ndirs && n < 40; k++) {
      struct dir *d = &dirs[k];
      if (d->kind == 0) { for (j = (int) rn(3); j > 0; j--) inp[n++] = " \t\n"[rn(3)]; }
      else if (d->kind == 1) { inp[n++] = rn(12) ? d->lit : ALPHA[rn(NALPHA)]; }
      else {
        for (j = (int) rn(4); j > 0; j--) {
          char c; int tries = 0, in;
          do { c = ALPHA[rn(NALPHA)]; in = memchr(d->set, c, (size_t) d->nset) != NULL; } while ((in == d->neg) && ++tries < 40);
          inp[n++] = c;
        }
      }
      if (rn(15) == 0) break;    /* truncated input */
    }
    for (j = (int) rn(3); j > 0 && n < 40; j--) inp[n++] = ALPHA[rn(NALPHA)];
    if (n > 0 && rn(4) == 0) inp[rn((unsigned) n)] = ALPHA[rn(NALPHA)];
  } else {
    n = (int) rn(11);
    for (k = 0; k < n; k++) inp[k] = ALPHA[rn(NALPHA)];
  }
  inp[n] = '\0';
}

/* ---- second part: the libc number parsers and comparisons modelled in models/cstring_model.c ---- */
static const char NALPHA_S[] = " \t+-00112345678999abcdefABCDEFxXzZgG..eE";
static void gen_numstr(char *o) {
  int n = 0, k, m;
  unsigned t = rn(10);
  if (rn(4) == 0) for (k = (int) rn(3); k > 0; k--) o[n++] = " \t\n"[rn(3)];
  if (rn(3) == 0) o[n++] = "+-"[rn(2)];
  if (t < 2) { o[n++] = '0'; o[n++] = "xX"[rn(2)]; }
  else if (t < 3) o[n++] = '0';
  if (t < 6) { m = (int) rn(7); for (k = 0; k < m; k++) o[n++] = "0123456789abcdefABCDEF"[rn(rn(2) ? 10 : 22)]; }
  else if (t < 7) { m = 15 + (int) rn(10); for (k = 0; k < m; k++) o[n++] = (char) ('0' + rn(10)); }     /* overflow range */
  else if (t < 9) {                                                                           /* decimal floating notation */
    m = (int) rn(7); for (k = 0; k < m; k++) o[n++] = (char) ('0' + rn(10));
    if (rn(3)) { o[n++] = '.'; m = (int) rn(6); for (k = 0; k < m; k++) o[n++] = (char) ('0' + rn(10)); }
    if (rn(2)) { o[n++] = "eE"[rn(2)]; if (rn(2)) o[n++] = "+-"[rn(2)]; m = (int) rn(3); for (k = 0; k < m; k++) o[n++] = (char) ('0' + rn(rn(3) ? 3 : 10)); }
  } else { m = (int) rn(9); for (k = 0; k < m; k++) o[n++] = NALPHA_S[rn((unsigned) sizeof NALPHA_S - 1)]; }
  for (k = (int) rn(3); k > 0; k--) o[n++] = NALPHA_S[rn((unsigned) sizeof NALPHA_S - 1)];
  o[n] = '\0';
}
static int sgn(int x) { return (x > 0) - (x < 0); }
#define NUMFAIL(what) do { printf("sscanf_diff: DIFFERENCE in %s: input <%s> base %d\n", what, b, base); return 1; } while (0)
extern long vm_float_deferred;
static int numeric_part(long N) {
  static const int BASES[] = {0, 10, 16, 8, 2, 36, 7};
  static const char *NF[] = {"%d", "%i", "%u", "%x", "%o", "%ld", "%lld", "%hd", "%hhd", "%li", "k=%i", "%i,%d", "%d %[abcdef]", "%lf", "%f", "%lf %d", "%lg=%i"};
  long it, fast = 0, deferred = 0;
  char b[80], c[80];
  for (it = 0; it < N; it++) {
    int base = BASES[rn(7)], ndig = 0, k;
    char *e1, *e2;
    gen_numstr(b);
    { long x = strtol(b, &e1, base), y = vm_strtol(b, &e2, base); if (x != y || e1 != e2) NUMFAIL("strtol"); }
    { long long x = strtoll(b, &e1, base), y = vm_strtoll(b, &e2, base); if (x != y || e1 != e2) NUMFAIL("strtoll"); }
    { unsigned long x = strtoul(b, &e1, base), y = vm_strtoul(b, &e2, base); if (x != y || e1 != e2) NUMFAIL("strtoul"); }
    { unsigned long long x = strtoull(b, &e1, base), y = vm_strtoull(b, &e2, base); if (x != y || e1 != e2) NUMFAIL("strtoull"); }
    if (atol(b) != vm_atol(b)) NUMFAIL("atol");
    if (atoll(b) != vm_atoll(b)) NUMFAIL("atoll");
    for (k = 0; b[k]; k++) if (b[k] >= '0' && b[k] <= '9') ndig++;
    if (ndig <= 9 && atoi(b) != vm_atoi(b)) NUMFAIL("atoi");          /* atoi overflow is undefined behaviour */
    { double x = strtod(b, &e1), y = vm_strtod(b, &e2);
      if (memcmp(&x, &y, sizeof x) != 0 || e1 != e2) NUMFAIL("strtod");
      x = atof(b); y = vm_atof(b); if (memcmp(&x, &y, sizeof x) != 0) NUMFAIL("atof");
      if (e1 != b && x != 0.0) fast++; }
    if (it == N - 1) deferred = vm_float_deferred;
    { /* sscanf numeric conversions: return value and every destination byte */
      const char *f = NF[rn((unsigned) (sizeof NF / sizeof NF[0]))];
      union { long long ll; double d; char raw[16]; } a1, a2, a3, a4; int r1, r2;
      memset(&a1, 0x55, sizeof a1); memset(&a2, 0x55, sizeof a2); memset(&a3, 0x55, sizeof a3); memset(&a4, 0x55, sizeof a4);
      if (rn(3) == 0) { memmove(b + 2, b, strlen(b) + 1); b[0] = 'k'; b[1] = '='; }
      r1 = sscanf(b, f, &a1, &a2); r2 = vm_sscanf(b, f, &a3, &a4);
      if (r1 != r2 || memcmp(&a1, &a3, sizeof a1) != 0 || memcmp(&a2, &a4, sizeof a2) != 0) { printf("sscanf_diff: DIFFERENCE: format <%s> input <%s>: libc %d model %d\n", f, b, r1, r2); return 1; }
    }
    gen_numstr(c);
    { size_t n = rn(6);
      if (rn(3) == 0) { strcpy(c, b); if (c[0] && rn(2)) { size_t q = rn((unsigned) strlen(c)); c[q] = (char) (c[q] ^ 0x20); } }
      if (sgn(strncmp(b, c, n)) != sgn(vm_strncmp(b, c, n)) || sgn(strcasecmp(b, c)) != sgn(vm_strcasecmp(b, c)) ||
          sgn(strncasecmp(b, c, n)) != sgn(vm_strncasecmp(b, c, n))) { printf("sscanf_diff: DIFFERENCE in strncmp/strcasecmp: <%s> <%s> n=%zu\n", b, c, n); return 1; }
    }
  }
  printf("sscanf_diff: %ld strings: strtol/strtoll/strtoul/strtoull (7 bases, value and end pointer), atoi/atol/atoll, strtod/atof "
         "(bit-identical; %ld non-zero conversions, %ld model calls outside the modelled range deferred to libc), numeric sscanf conversions, strncmp/strcasecmp/strncasecmp: model == libc\n", N, fast, deferred);
  return 0;
}

int main(int argc, char **argv) {
  long N = argc > 1 ? atol(argv[1]) : 400000, it, hist[6] = {0}, real = 0;
  char a[MAXCONV][BUFSZ], b[MAXCONV][BUFSZ];
  if (numeric_part(N / 2)) return 1;
  for (it = 0; it < N; it++) {
    int ra, rb;
    gen_format(); gen_input();
    memset(a, 0x7f, sizeof a); memset(b, 0x7f, sizeof b);
    ra = sscanf(inp, fmt, a[0], a[1], a[2]);
    rb = vm_sscanf(inp, fmt, b[0], b[1], b[2]);
    if (ra != rb || memcmp(a, b, sizeof a) != 0) {
      printf("sscanf_diff: DIFFERENCE at pair %ld: format <%s> input <%s>: libc returns %d, model returns %d\n", it, fmt, inp, ra, rb);
      return 1;
    }
    hist[ra + 1]++;
    if (fmt[0] == '[' || (fmt[0] == '%' && fmt[2] == '^' && fmt[3] == '=')) real++;
  }
  printf("sscanf_diff: %ld (format,input) pairs, model == libc on return value and all destination buffers "
         "(returns EOF:%ld 0:%ld 1:%ld 2:%ld 3:%ld; %ld pairs used the formats of pinifile.c)\n",
         N, hist[0], hist[1], hist[2], hist[3], hist[4], real);
  return 0;
}
