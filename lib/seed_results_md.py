#!/usr/bin/env python3
"""Regenerate seeded/RESULTS.md from seeded/RESULTS.jsonl (latest entry per seed) and the seeds' meta.json."""
import os, json
HERE = os.path.dirname(os.path.dirname(os.path.abspath(__file__)))
S = os.path.join(HERE, "seeded")
latest, hist = {}, {}
for l in open(os.path.join(S, "RESULTS.jsonl")):
    r = json.loads(l); latest[r["seed"]] = r; hist.setdefault(r["seed"], []).append(r)
out = ["# Independently seeded regressions vs. the checks\n",
       "Each seed was written by a fresh sub-agent that saw only the property text and a scratch worktree; the lead re-confirmed",
       "(demo fails with the change, passes without, 28/28 unit tests pass with the change).  `lib/seed_matrix.py` applies the patch to a",
       "scratch copy of /repo and runs `./check <property> --tier quick` against it.  First verdict = first run of the check as built",
       "before the seed was known; latest = after any strengthening (DESIGN.md I.6).\n",
       "| seed | what the change does (seeder's summary) | needs to manifest | first verdict | latest verdict | caught by |", "|---|---|---|---|---|---|"]
FIRST = {"C17_A": "MISSED", "C06_B": "MISSED", "C03_B": "MISSED", "C10_A": "INCONCLUSIVE"}
for d in sorted(os.listdir(S)):
    mp = os.path.join(S, d, "meta.json")
    if not os.path.exists(mp): continue
    m = json.load(open(mp))
    r = latest.get(d)
    def v(r):
        if not r: return "not run"
        t = " ".join(r["verdicts"])
        return "CAUGHT" if "CAUGHT" in t else "MISSED" if "MISSED" in t else "INCONCLUSIVE" if "INCONCLUSIVE" in t else t[:40]
    by = ""
    if r and r["detail"]:
        for x in r["detail"]:
            if "failed:" in x: by = x.split("failed:")[1].strip()[:140]; break
    first = FIRST.get(d, v(hist.get(d, [None])[0]))
    clean = lambda s: str(s).replace("|", "/").replace("\n", " ")[:260]
    out.append("| %s | %s | %s | %s | %s | %s |" % (d, clean(m.get("summary", "")), clean(m.get("needs_to_manifest", "")), first, v(r), clean(by)))
open(os.path.join(S, "RESULTS.md"), "w").write("\n".join(out) + "\n")
print("\n".join(out[-8:]))
