#!/usr/bin/env python3
"""Verification framework core: builds the real plibsys translation units with goto-cc using the
project's own flags, links harness + environment models, runs CBMC queries in parallel, classifies
every reported property, writes evidence and replay files.

Stdlib only.  Everything is rebuilt from $VERIF_REPO (default /repo) on every run, in a scratch
directory that is removed at exit.
"""
import os, sys, re, json, time, shutil, signal, tempfile, subprocess, resource, shlex
import concurrent.futures as cf
import threading
_BUILD_LOCK = threading.Lock()

VERIF = os.path.dirname(os.path.dirname(os.path.abspath(__file__)))
REPO = os.environ.get("VERIF_REPO", "/repo")
JOBS = int(os.environ.get("VERIF_JOBS", "16"))
KEEP = os.environ.get("VERIF_KEEP", "") != ""

FALLBACK_DEFINES = ("-DPLIBSYS_COMPILATION -DPLIBSYS_HAS_CLOCKNANOSLEEP -DPLIBSYS_HAS_GETADDRINFO "
                    "-DPLIBSYS_HAS_LLDIV -DPLIBSYS_HAS_NANOSLEEP -DPLIBSYS_HAS_POSIX_SCHEDULING "
                    "-DPLIBSYS_HAS_POSIX_STACKSIZE -DPLIBSYS_HAS_PTHREAD_SETNAME "
                    "-DPLIBSYS_HAS_SOCKADDR_STORAGE -DPLIBSYS_HAS_SOCKLEN_T "
                    "-DPLIBSYS_MMAP_HAS_MAP_ANONYMOUS -DPLIBSYS_SOCKADDR_IN6_HAS_FLOWINFO "
                    "-DPLIBSYS_SOCKADDR_IN6_HAS_SCOPEID -D_GNU_SOURCE -D_REENTRANT").split()

# classes of CBMC-generated properties
MEM_CLASSES = ("pointer_dereference", "array_bounds", "pointer_primitives", "precondition_instance",
               "division-by-zero", "pointer", "bounds", "memory-leak", "deallocated", "dead-object")
UB_CLASSES = ("overflow", "undefined-shift", "pointer_arithmetic", "conversion", "enum-range", "NaN",
              "float-overflow")


def repo_flags():
    """-D / -I flags of the real build: parsed from build.ninja when present, else the recorded set."""
    defines, src = None, "fallback(lib/vf.py)"
    ninja = os.path.join(REPO, "_build", "build.ninja")
    if os.path.exists(ninja):
        with open(ninja, errors="replace") as f:
            txt = f.read()
        m = re.search(r"plibsysstatic\.dir/psocket\.c\.o:.*?\n\s+DEFINES = (.*)\n", txt)
        if m:
            defines = [d for d in m.group(1).split() if d.startswith("-D")]
            src = ninja
    if defines is None:
        defines = list(FALLBACK_DEFINES)
    cfg_dir = os.path.join(REPO, "_build", "src")
    if not os.path.exists(os.path.join(cfg_dir, "plibsysconfig.h")):
        cfg_dir = os.path.join(VERIF, "lib", "fallback")
        src += "+fallback plibsysconfig.h"
    incs = ["-I" + os.path.join(REPO, "src"), "-I" + cfg_dir]
    return defines, incs, src


class Q:
    """One solver query (= one cbmc invocation on one linked goto binary)."""

    def __init__(self, name, harness, units=(), models=(), defs=(), unit_defs=(), entry="harness",
                 unwind=None, unwindset=None, flags=(), remove_bodies=(), export_local=False,
                 includes=(), timeout=900, mem_gb=12, threads=False, kf=None, ub_scope=(),
                 no_mem=False, note="", funcs=(), bounds=None, malloc_may_fail=False, tiers=None,
                 object_bits=None, solver=None, unwind_assert=True, kf_match=None, hdefs=(), instrument_units=()):
        self.instrument_units = list(instrument_units)  # goto-instrument argv applied to the unit objects before linking (e.g. --havoc-loops)
        self.hdefs = list(hdefs)        # -D for harness + models only (keeps the unit objects cacheable across queries)
        self.kf_match = kf_match      # regex: failing CBMC properties that ARE the known finding
        self.name = name
        self.harness = harness          # path relative to /verif
        self.units = list(units)        # repo-relative sources compiled as separate TUs
        self.models = list(models)      # /verif-relative model sources
        self.defs = list(defs)          # -D for harness+models+units
        self.unit_defs = list(unit_defs)  # extra flags for the repo units only (e.g. -include)
        self.entry = entry
        self.unwind = unwind
        self.unwindset = dict(unwindset or {})
        self.flags = list(flags)
        self.remove_bodies = list(remove_bodies)
        self.export_local = export_local
        self.includes = list(includes)  # force-included headers for the repo units (relative to /verif)
        self.timeout = timeout
        self.mem_gb = mem_gb
        self.threads = threads          # CBMC native threads: pointer checks off
        self.kf = kf                    # id of the known finding this query demonstrates
        self.ub_scope = tuple(ub_scope)  # UB classes that count as violations for this property
        self.no_mem = no_mem
        self.note = note
        self.funcs = list(funcs)        # real functions encoded (for evidence)
        self.bounds = bounds or {}
        self.malloc_may_fail = malloc_may_fail
        self.object_bits = object_bits
        self.solver = solver
        self.unwind_assert = unwind_assert


class Result:
    def __init__(self, q):
        self.q = q
        self.status = "error"   # pass | violation | inconclusive | error | kf
        self.props = []         # (id, desc, status, loc)
        self.bad = []           # unexpected failing props
        self.unreached = []     # witnesses not reached
        self.witness_ok = 0
        self.kf_hit = []
        self.notes = []
        self.wall = 0.0
        self.solver_s = 0.0
        self.steps = 0
        self.vars = 0
        self.clauses = 0
        self.cmd = ""
        self.log = ""
        self.replay = None
        self.maxrss_mb = 0


def _limit(mem_gb):
    def f():
        os.setsid()
        if mem_gb:
            b = int(mem_gb * (1 << 30))
            resource.setrlimit(resource.RLIMIT_AS, (b, b))
    return f


def run(cmd, timeout=None, mem_gb=None, cwd=None, drop=None):
    """run a command; returns (rc, output, wall).  rc=-999 on timeout.  Lines starting with a prefix
    in `drop` are discarded while streaming (cbmc --verbosity 8 prints one line per loop unwinding)."""
    t0 = time.time()
    p = subprocess.Popen(cmd, stdout=subprocess.PIPE, stderr=subprocess.STDOUT, cwd=cwd,
                         preexec_fn=_limit(mem_gb), text=True, errors="replace")
    lines = []
    timed_out = [False]

    def kill():
        timed_out[0] = True
        try:
            os.killpg(p.pid, signal.SIGKILL)
        except Exception:
            pass
    timer = threading.Timer(timeout, kill) if timeout else None
    if timer:
        timer.start()
    try:
        for line in p.stdout:
            if drop and line.startswith(drop):
                continue
            lines.append(line)
        p.wait()
    finally:
        if timer:
            timer.cancel()
    rc = -999 if timed_out[0] else p.returncode
    return rc, "".join(lines), time.time() - t0


class Builder:
    def __init__(self, scratch):
        self.scratch = scratch
        self.defines, self.incs, self.flag_src = repo_flags()
        self.cache = {}
        self.locks = {}
        self.glock = threading.Lock()
        self.counter = 0

    def _keylock(self, key):
        with self.glock:
            if key not in self.locks:
                self.locks[key] = threading.Lock()
            return self.locks[key]

    def _cc(self, src, extra, tag, export_local=False):
        key = (src, tuple(extra), export_local)
        with self._keylock(key):
            return self._cc_locked(key, src, extra, tag, export_local)

    def _cc_locked(self, key, src, extra, tag, export_local):
        if key in self.cache:
            return self.cache[key]
        with self.glock:
            self.counter += 1
            n = self.counter
        out = os.path.join(self.scratch, "o_%d_%s.gb" % (n, re.sub(r"\W", "_", os.path.basename(src))))
        cmd = ["goto-cc", "-c", "-o", out, src] + self.defines + self.incs + \
              ["-I" + os.path.join(VERIF, "models"), "-I" + os.path.join(VERIF, "harness")] + list(extra)
        if export_local:
            cmd.insert(1, "--export-file-local-symbols")
        rc, o, _ = run(cmd, timeout=300)
        if rc != 0:
            raise RuntimeError("goto-cc failed for %s:\n%s\n%s" % (src, " ".join(cmd), o[-3000:]))
        self.cache[key] = out
        return out

    def build(self, q, idx):
        objs = []
        defs = ["-D" + d if not d.startswith("-") else d for d in q.defs]
        uinc = []
        for h in q.includes:
            uinc += ["-include", os.path.join(VERIF, h)]
        uobjs = [self._cc(os.path.join(REPO, u), defs + uinc + q.unit_defs, "u", q.export_local) for u in q.units]
        if q.remove_bodies:
            # bodies are removed from the unit objects (before linking) so that the harness / a model can
            # supply the replacement definition under the same (file-local-exported) symbol name
            key = ("rm", tuple(uobjs), tuple(q.remove_bodies))
            with self._keylock(key):
              if key not in self.cache:
                stripped = []
                with self.glock:
                    self.counter += 1
                    n = self.counter
                for o in uobjs:
                    so = o[:-3] + "_rm%d.gb" % n
                    shutil.copy(o, so)
                    for fn in q.remove_bodies:
                        rc, out, _ = run(["goto-instrument", "--remove-function-body", fn, so, so], timeout=300)
                        if rc != 0 and "not found" not in out:
                            raise RuntimeError("remove-function-body %s failed:\n%s" % (fn, out[-2000:]))
                    stripped.append(so)
                self.cache[key] = stripped
            uobjs = self.cache[key]
        if q.instrument_units:
            ins = []
            for o in uobjs:
                key = ("ins", o, tuple(q.instrument_units))
                with self._keylock(key):
                    if key not in self.cache:
                        with self.glock:
                            self.counter += 1
                            n = self.counter
                        so = o[:-3] + "_ins%d.gb" % n
                        rc, out, _ = run(["goto-instrument"] + list(q.instrument_units) + [o, so], timeout=300)
                        if rc != 0:
                            raise RuntimeError("goto-instrument failed:\n" + out[-2000:])
                        self.cache[key] = so
                ins.append(self.cache[key])
            uobjs = ins
        objs += uobjs
        hd = defs + ["-D" + d if not d.startswith("-") else d for d in q.hdefs]
        for m in q.models:
            objs.append(self._cc(os.path.join(VERIF, m), hd, "m"))
        objs.append(self._cc(os.path.join(VERIF, q.harness), hd, "h"))
        out = os.path.join(self.scratch, "q%d.gb" % idx)
        cmd = ["goto-cc", "-o", out] + objs
        rc, o, _ = run(cmd, timeout=300)
        if rc != 0:
            raise RuntimeError("link failed:\n%s\n%s" % (" ".join(cmd), o[-3000:]))
        return out


PROP_RE = re.compile(r"^\[(?P<id>[^\]]+)\] (?:line (?P<line>\d+) )?(?P<desc>.*): (?P<st>SUCCESS|FAILURE|UNKNOWN|ERROR)$")


def prop_class(pid):
    # e.g. harness.assertion.1, p_tree_insert.pointer_dereference.3, harness.unwind.0
    parts = pid.split(".")
    if len(parts) >= 2:
        return parts[-2]
    return pid


def cbmc_cmd(q, gb, extra=()):
    cmd = ["cbmc", gb, "--function", q.entry, "--drop-unused-functions"]
    if q.unwind is not None:
        cmd += ["--unwind", str(q.unwind)]
    if q.unwindset:
        cmd += ["--unwindset", ",".join("%s:%d" % kv for kv in q.unwindset.items())]
    if q.unwind_assert:
        cmd += ["--unwinding-assertions"]
    elif "--no-unwinding-assertions" not in q.flags:
        cmd += ["--no-unwinding-assertions"]
    if not q.malloc_may_fail:
        cmd += ["--no-malloc-may-fail"]
    if q.threads:
        cmd += ["--no-pointer-check", "--no-pointer-primitive-check"]
    if q.object_bits:
        cmd += ["--object-bits", str(q.object_bits)]
    if q.solver == "kissat":
        cmd += ["--external-sat-solver", "kissat"]
    elif q.solver == "cadical":
        cmd += ["--sat-solver", "cadical"]
    elif q.solver in ("z3", "cvc5"):
        cmd += ["--" + q.solver]
    cmd += q.flags
    cmd += list(extra)
    if "--json-ui" not in cmd:
        cmd += ["--verbosity", "8"]
    return cmd


def classify(q, res, out):
    """Decide the verdict of one query from the per-property results."""
    props = []
    for line in out.splitlines():
        m = PROP_RE.match(line.strip())
        if m:
            props.append((m.group("id"), m.group("desc"), m.group("st"), m.group("line")))
    res.props = props
    m = re.search(r"size of program expression: (\d+) steps", out)
    if m:
        res.steps = int(m.group(1))
    m = re.findall(r"(\d+) variables, (\d+) clauses", out)
    if m:
        res.vars, res.clauses = int(m[-1][0]), int(m[-1][1])
    res.solver_s = sum(float(x) for x in re.findall(r"Runtime decision procedure: ([\d.]+)s", out)) + \
        sum(float(x) for x in re.findall(r"Runtime Solver: ([\d.]+)s", out))
    concluded = ("VERIFICATION SUCCESSFUL" in out) or ("VERIFICATION FAILED" in out)
    if not concluded or not props:
        res.status = "error"
        return
    bad, unreached, inconcl, kf_hit, notes, wit_ok = [], [], [], [], [], 0
    for pid, desc, st, line in props:
        cls = prop_class(pid)
        is_wit = desc.startswith("WITNESS")
        is_kf = desc.startswith("KF ")
        if is_wit:
            if st == "FAILURE":
                wit_ok += 1
            else:
                unreached.append((pid, desc))
            continue
        if st == "SUCCESS":
            continue
        if st != "FAILURE":
            inconcl.append((pid, desc))
            continue
        if cls == "unwind" or "unwinding assertion" in desc or "recursion unwinding" in desc:
            inconcl.append((pid, desc))
        elif q.kf and (is_kf or (q.kf_match and re.search(q.kf_match, pid + ' ' + desc))):
            kf_hit.append((pid, desc))
        elif cls in ("assertion",) or desc.startswith("P "):
            bad.append((pid, desc))
        elif 'type conversion' in desc:
            notes.append((pid, desc))   # implementation-defined, not undefined
        elif cls in UB_CLASSES:
            if cls in q.ub_scope or "all" in q.ub_scope:
                bad.append((pid, desc))
            else:
                notes.append((pid, desc))
        else:
            # memory-safety classes and anything unknown: a crash is a violation of every property
            if q.no_mem:
                notes.append((pid, desc))
            else:
                bad.append((pid, desc))
    res.bad, res.unreached, res.kf_hit, res.notes, res.witness_ok = bad, unreached, kf_hit, notes, wit_ok
    res.inconcl = inconcl
    if q.kf and kf_hit and not bad:
        inconcl = []   # demonstration reached its finding; later properties may be UNKNOWN
        res.inconcl = []
    if bad:
        res.status = "violation"
    elif inconcl:
        res.status = "inconclusive"
    elif unreached:
        res.status = "vacuous"
    elif wit_ok == 0:
        res.status = "vacuous"
        res.unreached = [("-", "harness has no WITNESS assertion")]
    else:
        res.status = "pass"


def extract_trace(q, gb, pid, scratch):
    """Re-run the query for one failing property with a JSON trace; return (nd_values, steps_excerpt)."""
    cmd = cbmc_cmd(q, gb, ["--property", pid, "--trace", "--json-ui", "--stop-on-fail"])
    rc, out, _ = run(cmd, timeout=q.timeout, mem_gb=q.mem_gb)
    nd, excerpt = [], []
    try:
        data = json.loads(out)
    except Exception:
        return nd, ["(trace not parseable)"], " ".join(shlex.quote(c) for c in cmd)
    trace = None
    for m in data:
        if isinstance(m, dict) and "result" in m:
            for r in m["result"]:
                if r.get("status") == "FAILURE" and "trace" in r:
                    trace = r["trace"]
        if isinstance(m, dict) and "trace" in m and trace is None:
            trace = m["trace"]
    for s in trace or []:
        st = s.get("stepType")
        fn = (s.get("sourceLocation") or {}).get("function", "")
        if st == "assignment":
            lhs = s.get("lhs", "")
            if fn == "__CPROVER_initialize" or s.get("hidden"):
                continue
            val = s.get("value", {})
            data_v = val.get("data", val.get("name"))
            if lhs in ("vlog", "vlogu"):
                nd.append(data_v)
            if not lhs.startswith("__CPROVER") and len(excerpt) < 400:
                excerpt.append("%s:%s %s = %s" % (fn, (s.get("sourceLocation") or {}).get("line", "?"), lhs, data_v))
        elif st == "function-call" and len(excerpt) < 400:
            excerpt.append("CALL %s" % (s.get("function") or {}).get("displayName"))
        elif st == "failure":
            excerpt.append("FAILURE %s at %s:%s" % (s.get("reason"), (s.get("sourceLocation") or {}).get("file"),
                                                     (s.get("sourceLocation") or {}).get("line")))
    return nd, excerpt[-250:], " ".join(shlex.quote(c) for c in cmd)


def run_query(builder, q, idx, prop_id, replay_dir):
    res = Result(q)
    t0 = time.time()
    try:
        gb = builder.build(q, idx)
    except Exception as e:
        res.status = "error"
        res.log = str(e)
        res.wall = time.time() - t0
        return res
    cmd = cbmc_cmd(q, gb)
    res.cmd = " ".join(shlex.quote(c) for c in cmd).replace(builder.scratch, "$SCRATCH")
    rc, out, wall = run(cmd, timeout=q.timeout, mem_gb=q.mem_gb, drop=("Unwinding loop", "Not unwinding", "Unwinding recursion"))
    res.log = out[-6000:]
    if rc == -999:
        res.status = "inconclusive"
        res.inconcl = [("-", "timeout after %ds" % q.timeout)]
        res.wall = time.time() - t0
        return res
    classify(q, res, out)
    if res.status == "error" and ("std::bad_alloc" in out or "Cannot allocate" in out or rc in (-9, -6, 134, 137)):
        res.status = "inconclusive"
        res.inconcl = [("-", "out of memory / killed (rc=%d)" % rc)]
    if res.status == "violation" or (q.kf and res.kf_hit):
        pid, desc = (res.bad or res.kf_hit)[0]
        nd, excerpt, tcmd = extract_trace(q, gb, pid, builder.scratch)
        os.makedirs(replay_dir, exist_ok=True)
        path = os.path.join(replay_dir, "%s_%s.json" % (prop_id, re.sub(r"\W+", "_", q.name)))
        with open(path, "w") as f:
            json.dump({"property": prop_id, "query": q.name, "harness": q.harness, "defs": q.defs,
                       "failed": [{"id": p, "desc": d} for p, d in (res.bad or res.kf_hit)],
                       "nondet_values_in_order": nd,
                       "how_to_replay": "./check %s --replay %s" % (prop_id, path),
                       "cbmc_cmd": tcmd.replace(builder.scratch, "$SCRATCH"),
                       "trace_excerpt": excerpt}, f, indent=1)
        res.replay = path
    res.wall = time.time() - t0
    return res


def load_findings():
    """known findings: /verif/known_findings.json (+ per-property /verif/findings/*.json while being built)"""
    out = []
    paths = [os.path.join(VERIF, "known_findings.json")]
    fd = os.path.join(VERIF, "findings")
    if os.path.isdir(fd):
        paths += sorted(os.path.join(fd, x) for x in os.listdir(fd) if x.endswith(".json"))
    for p in paths:
        if os.path.exists(p):
            with open(p) as f:
                out += json.load(f).get("findings", [])
    return out


def open_finding_defs(prop_id):
    """-DKF_OPEN_<id> for every open finding of this property: harnesses use it to assume the listed
    failing class away; fixed findings exclude nothing."""
    return ["KF_OPEN_" + f["id"] for f in load_findings() if f["property"] == prop_id and f.get("status") == "open"]


def check_property(prop_id, tier, queries, meta):
    """Run all queries of one property, print verdict lines, write evidence, return exit code."""
    t0 = time.time()
    seed = int(os.environ.get("VERIF_SEED", "0") or 0)
    scratch = tempfile.mkdtemp(prefix="verif_%s_" % prop_id)
    replay_dir = os.path.join(VERIF, "replay", "out")
    findings = {f["id"]: f for f in load_findings() if f["property"] == prop_id}
    opendefs = open_finding_defs(prop_id)
    for q in queries:
        q.defs = list(q.defs) + [d for d in opendefs if not (q.kf and d == 'KF_OPEN_' + q.kf)]
    results = []
    try:
        builder = Builder(scratch)
        # longest first
        order = sorted(range(len(queries)), key=lambda i: -queries[i].timeout)
        with cf.ThreadPoolExecutor(max_workers=JOBS) as ex:
            futs = {ex.submit(run_query, builder, queries[i], i, prop_id, replay_dir): i for i in order}
            for fu in cf.as_completed(futs):
                r = fu.result()
                results.append(r)
                print("  [%s] %-40s %-12s %6.1fs steps=%d wit=%d %s" % (
                    prop_id, r.q.name, r.status, r.wall, r.steps, r.witness_ok,
                    "; ".join(d for _, d in (r.bad or getattr(r, "inconcl", []) or r.unreached)[:3])), flush=True)
    finally:
        if not KEEP:
            shutil.rmtree(scratch, ignore_errors=True)
    results.sort(key=lambda r: r.q.name)
    rc = 0
    violations = 0
    kf_lines = []
    for r in results:
        q = r.q
        if q.kf:
            f = findings.get(q.kf)
            if f is None or f.get("status") != "open":
                # a demonstration query whose finding is not open (fixed): behaves like a normal query,
                # i.e. if the recorded failure comes back it is reported as a violation again
                if r.kf_hit and r.status != "violation":
                    r.status = "violation"
                    r.bad = list(r.kf_hit)
            else:
                if r.bad:
                    pass  # other assertions failed: handled below as violation
                elif r.kf_hit:
                    kf_lines.append("KNOWN-FINDING: property=%s %s [%s]" % (prop_id, f["what"], f["id"]))
                    continue
                elif r.status in ("pass", "vacuous"):
                    print("NOTE: known finding %s no longer reproduces (query %s)" % (q.kf, q.name))
                    continue
        if r.status == "violation":
            violations += 1
            rc = 1
            print("VIOLATION property=%s replay=%s" % (prop_id, r.replay))
            for pid, d in r.bad[:8]:
                print("    failed: %s  %s   (query %s)" % (pid, d, q.name))
        elif r.status in ("inconclusive", "error", "vacuous"):
            if rc == 0:
                rc = 2
            print("INCONCLUSIVE property=%s query=%s status=%s %s" % (
                prop_id, q.name, r.status, "; ".join(d for _, d in (getattr(r, "inconcl", []) or r.unreached)[:4])))
            if r.status == "error":
                print(r.log[-3000:])
    for l in kf_lines:
        print(l)
    wall = time.time() - t0
    write_evidence(prop_id, tier, seed, results, meta, wall, violations, kf_lines)
    print("%s tier=%s queries=%d pass=%d violations=%d inconclusive=%d wall=%.0fs" % (
        prop_id, tier, len(results), sum(1 for r in results if r.status == "pass"), violations,
        sum(1 for r in results if r.status in ("inconclusive", "error", "vacuous")), wall))
    return rc


def write_evidence(prop_id, tier, seed, results, meta, wall, violations, kf_lines):
    decided = [r for r in results if r.status in ("pass", "violation") or (r.q.kf and r.kf_hit)]
    nontriv = [r for r in results if r.witness_ok > 0 and not r.unreached and r.status in ("pass", "violation")]
    nprops = sum(len(r.props) for r in results)
    funcs = sorted({f for r in results for f in r.q.funcs})
    samples = []
    for r in results[:6]:
        samples.append({"query": r.q.name, "harness": r.q.harness, "defs": r.q.defs, "status": r.status,
                        "program_steps": r.steps, "sat_vars": r.vars, "sat_clauses": r.clauses,
                        "obligations": ["%s: %s" % (d, s) for _, d, s, _ in r.props if not d.startswith("WITNESS")][:12],
                        "witnesses_reached": r.witness_ok, "cmd": r.cmd})
    ev = {
        "property_id": prop_id, "tier": tier, "seed": seed, "level": "model_checking",
        "coverage": {
            "evaluations": len(results),
            "distinct_nontrivial": len(nontriv),
            "rule": "one evaluation = one CBMC solver query (a linked goto binary of the real plibsys units + harness "
                    "+ environment models, all symbolic inputs inside the stated bounds decided by the SAT/SMT back end); "
                    "a query is non-trivial when every WITNESS assertion placed after its property assertions was shown "
                    "reachable by the solver (assumptions satisfiable, assertions reached); queries are distinct by "
                    "(harness, defines, bounds)",
            "samples": samples,
            "traces_validated_against_impl": 0,
            "obligations": nprops,
            "discharged": sum(1 for r in results for _, d, s, _ in r.props if s == "SUCCESS"),
            "exhaustive": False,
            "functions_encoded": funcs,
            "units": sorted({u for r in results for u in r.q.units} | set(meta.get("units_included_by_harness", []))),
            "bounds": {r.q.name: dict(r.q.bounds, unwind=r.q.unwind, unwindset=r.q.unwindset) for r in results},
            "queries": {"total": len(results), "decided": len(decided),
                        "inconclusive": [r.q.name for r in results if r.status in ("inconclusive", "error", "vacuous")]},
            "solver_time_s": round(sum(r.solver_s for r in results), 2),
            "query_wall_s": {r.q.name: round(r.wall, 1) for r in results},
            "backend": "cbmc 6.11.0 (minisat2 built-in unless stated per query)",
            "outside_claim": meta.get("outside", []),
            "ub_notes": sorted({d for r in results for _, d in r.notes})[:20],
            "known_findings_reported": kf_lines,
        },
        "assumptions": meta.get("assumptions", []),
        "wall_s": round(wall, 1),
        "violations": violations,
    }
    os.makedirs(os.path.join(VERIF, "evidence"), exist_ok=True)
    with open(os.path.join(VERIF, "evidence", prop_id + ".json"), "w") as f:
        json.dump(ev, f, indent=1)
