#!/bin/bash
# lib/confirm_seed.sh <Cxx> <A|B>: re-confirm a seeded change in its scratch worktree /tmp/seed/<Cxx>:
# with the change: library builds, demo FAILS, full ctest passes; without: demo PASSES.  Then store under /verif/seeded/.
P=$1; V=$2; ROOT=${3:-/tmp/seed}; ON=${4:-$V}; WT=$ROOT/$P; S=$WT/seed_out/$V; OUT=/verif/seeded/${P}_$ON
set -u
cd $WT || exit 2
git checkout -q -- src
git apply $S/patch.diff || { echo "APPLY FAILED"; exit 2; }
cmake --build _build >/dev/null 2>&1 || { echo "BUILD FAILED with change"; git checkout -q -- src; exit 2; }
( cd $S && bash ./run_demo.sh ) > $ROOT/${P}_${V}_with.log 2>&1; RC_WITH=$?
CT=$(flock /tmp/plibsys_ctest.lock ctest --test-dir $WT/_build -j8 --timeout 900 2>&1 | grep -E "tests passed|tests failed" | tail -1)
git checkout -q -- src
cmake --build _build >/dev/null 2>&1
( cd $S && bash ./run_demo.sh ) > $ROOT/${P}_${V}_without.log 2>&1; RC_WITHOUT=$?
echo "$P/$V demo_with_change rc=$RC_WITH demo_without rc=$RC_WITHOUT ctest_with_change: $CT"
if [ $RC_WITH -ne 0 ] && [ $RC_WITHOUT -eq 0 ] && echo "$CT" | grep -q "100% tests passed"; then
  mkdir -p $OUT && cp $S/patch.diff $S/demo.c $S/run_demo.sh $OUT/ 2>/dev/null; cp $S/*.c $S/*.sh $S/*.h $OUT/ 2>/dev/null
  python3 - "$S/meta.json" "$OUT/meta.json" "$RC_WITH" "$RC_WITHOUT" "$CT" <<'PY'
import json,sys
try: m=json.load(open(sys.argv[1]))
except Exception as e: m={"note":"seeder meta unreadable: %s"%e}
m["confirmed_by_lead"]={"ran":"git apply patch.diff; cmake --build; run_demo.sh (must fail); flock ctest -j8 (must pass 28/28); git checkout -- src; rebuild; run_demo.sh (must pass)",
  "demo_with_change_rc":int(sys.argv[3]),"demo_without_change_rc":int(sys.argv[4]),"ctest_with_change":sys.argv[5]}
json.dump(m,open(sys.argv[2],"w"),indent=1)
PY
  echo "CONFIRMED -> $OUT"
else
  echo "NOT CONFIRMED"; tail -5 $ROOT/${P}_${V}_with.log; tail -5 $ROOT/${P}_${V}_without.log
fi
