#!/usr/bin/env python3
"""lib/mutant_run.py <patch.diff> <Cxx> [<Cyy> ...] [--tier quick|thorough]
Applies a patch to a scratch COPY of /repo's sources (never to /repo), runs the named checks against the
copy (VERIF_REPO), prints one line per check: CAUGHT (exit 1 + VIOLATION) / MISSED (exit 0) / INCONCLUSIVE (exit 2),
and removes the copy.  Evidence files written during the run are restored afterwards."""
import sys, os, subprocess, tempfile, shutil
HERE = os.path.dirname(os.path.dirname(os.path.abspath(__file__)))
args = sys.argv[1:]
tier = "quick"
if "--tier" in args:
    i = args.index("--tier"); tier = args[i + 1]; del args[i:i + 2]
patch, props = os.path.abspath(args[0]), args[1:]
d = tempfile.mkdtemp(prefix="verif_mut_")
try:
    shutil.copytree("/repo/src", os.path.join(d, "src"))
    os.makedirs(os.path.join(d, "_build", "src"))
    shutil.copy("/repo/_build/build.ninja", os.path.join(d, "_build", "build.ninja"))
    shutil.copy("/repo/_build/src/plibsysconfig.h", os.path.join(d, "_build", "src", "plibsysconfig.h"))
    # build.ninja mentions /repo paths only for flags we parse (-D...), includes are recomputed from VERIF_REPO
    r = subprocess.run(["patch", "-p1", "-d", d, "-i", patch], capture_output=True, text=True)
    if r.returncode != 0:
        print("PATCH FAILED", r.stdout[-500:], r.stderr[-500:]); sys.exit(3)
    for p in props:
        ev = os.path.join(HERE, "evidence", p + ".json")
        bak = None
        if os.path.exists(ev):
            bak = ev + ".bak"; shutil.copy(ev, bak)
        env = dict(os.environ, VERIF_REPO=d)
        r = subprocess.run([os.path.join(HERE, "check"), p, "--tier", tier], capture_output=True, text=True, env=env)
        viol = [l for l in r.stdout.splitlines() if l.startswith("VIOLATION") or l.strip().startswith("failed:")]
        verdict = {0: "MISSED", 1: "CAUGHT", 2: "INCONCLUSIVE"}.get(r.returncode, "ERROR rc=%d" % r.returncode)
        print("%s %s %s" % (os.path.basename(os.path.dirname(patch)) + "/" + os.path.basename(patch), p, verdict))
        for l in viol[:6]:
            print("    " + l.strip())
        if r.returncode not in (0, 1):
            print("\n".join(r.stdout.splitlines()[-15:]))
        if bak:
            shutil.move(bak, ev)
finally:
    shutil.rmtree(d, ignore_errors=True)
