#!/usr/bin/env python3
"""Builds lib/sscanf_diff.c natively against models/stdio_model.c + models/cstring_model.c and runs it.
Exit 0: the sscanf model agrees with the C library on every generated pair; 1 otherwise."""
import os, subprocess, sys, tempfile, shutil
V = os.path.dirname(os.path.dirname(os.path.abspath(__file__)))
d = tempfile.mkdtemp(prefix="sscanf_diff_")
try:
    exe = os.path.join(d, "sscanf_diff")
    cc = ["gcc", "-O1", "-Wall", "-Wno-format-security", "-Wno-format", "-DVERIF_NATIVE", "-I" + os.path.join(V, "models"), "-o", exe,
          os.path.join(V, "lib", "sscanf_diff.c"), os.path.join(V, "models", "stdio_model.c"), os.path.join(V, "models", "cstring_model.c")]
    r = subprocess.run(cc)
    if r.returncode != 0:
        print("sscanf_diff: build failed"); sys.exit(1)
    r = subprocess.run([exe] + sys.argv[1:], timeout=55)
    sys.exit(0 if r.returncode == 0 else 1)
finally:
    shutil.rmtree(d, ignore_errors=True)
